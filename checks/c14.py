"""C14 - state is fresh: attributes reflect the newest live message, stale data ages out.

(a) expiry kernel - the real ``pkt_lifespan`` + ``Message._expired`` on one logged I/RP frame per
    verb/code (and on sync-cycle frames whose 16-bit count-down is symbolic) with the gateway clock a
    solver real: two readings at e1 <= e2 seconds after receipt on the same object (the memoised
    fraction is part of what runs).  Per path: never raises; e1 < L => not expired; e2 >= 2L + 3 =>
    expired; expired(e1) => expired(e2).
(b) newest wins / ages out - the real ``_MessageDB._handle_msg/_msg_value/_msg_value_code/
    _msg_value_msg`` on a minimal entity: two messages of a stateful code for the same context with
    symbolic values, unrelated traffic (another code, another zone, another device) handled in
    between, then the attribute read: equals the later message's value; array form: the element of
    the asked zone; and, with the clock past twice the lifetime, the read gives unknown.

Entity level (checks/gwfresh.py): a real Gateway with a controller and zones 00-02 receives K state messages whose
form (array / per-zone, 30C9 / 2309 / 2349, DHW 1260 / 10A0), zone, value and time of receipt are solver variables, through the real
dispatcher and MultiZone/Zone handlers; all zones' temperature and setpoint are then read at a solver-chosen time:
the newest live message covering a zone is what is reported, and a value is reported only while a message
carrying it is younger than twice its lifetime plus the grace."""
from __future__ import annotations

import os

from checks import common
from checks import decode as D
from symx.runner import Query

PROPERTY = "C14"
LEVEL = "other"
EXPLANATION = __doc__
FUNCTIONS = ["ramses_tx.packet:pkt_lifespan", "ramses_tx.message:Message._expired", "ramses_rf.entity_base:_MessageDB._handle_msg", "ramses_rf.entity_base:_MessageDB._msg_value",
             "ramses_rf.entity_base:_MessageDB._msg_value_code", "ramses_rf.entity_base:_MessageDB._msg_value_msg", "ramses_rf.entity_base:_MessageDB._delete_msg",
             "ramses_rf.gateway:Gateway._msg_handler", "ramses_rf.dispatcher:process_msg", "ramses_rf.system.heat:MultiZone._handle_msg", "ramses_rf.system.zones:Zone._handle_msg", "ramses_rf.system.zones:Zone._msg_value",
             "ramses_rf.system.zones:Zone.temperature", "ramses_rf.system.zones:Zone.setpoint"]
BOUNDS = {"quick": {"expiry": "one logged frame per I/RP verb/code pair; clock offsets two solver reals 0 <= e1 <= e2 <= 10^7 s; 1F09 count-down all 65536 values", "freshness": "2 messages + 3 unrelated ones, 4 stateful codes, dict and array forms",
                    "entity level": "real Gateway, zones 00-02 + the stored hot water; every ordered pair of the 8 message forms + 8 triples; per message: zone a solver digit, value a solver 16-bit word (0000-7EFE without 31FF), time of receipt a solver real (strictly increasing, <= 30000 s); read time a solver real <= 30000 s later; reads repeated K+2 times"},
          "thorough": {"expiry": "up to 3 logged frames per pair", "freshness": "7 stateful codes", "entity level": "+ every triple of forms containing an array"}}
OUTSIDE = ["routing to UFH circuits and the other stateful codes at entity level (000A, 12B0, 3150, 1F41 ...: covered at the state-DB level only)", "the SQLite message index (gwy._zzz): disabled as in the default configuration"]
STUBS = ["gateway: object with _dt_now() = receipt time + symbolic offset, _zzz = None, _loop.call_soon recording the deferred deletions (run after the read)",
         "entity: a _MessageDB subclass instance carrying only id/_gwy/_msgs_/_msgz_"]
ASSUMPTIONS = ["lifetime L of a message = what pkt_lifespan assigns to its kind (payload-derived for sync-cycle packets): the property fixes the 1x / 2x+3 s thresholds, not the table"]
MIN_CONCLUSIVE_FRACTION = 0.8


def setup(tier):
    common.install(td_modules=("ramses_tx.parsers", "ramses_tx.message"))
    import ramses_rf.entity_base  # noqa: F401
    import ramses_tx.message  # noqa: F401


class XEnv:
    """inputs for the purge / pair scenarios: symbolic (check) or from a counterexample (replay)"""

    def __init__(self, ctx=None, cex=None):
        self.ctx, self.cex, self.symbolic = ctx, cex, ctx is not None

    def hexs(self, name, n):
        if self.symbolic:
            import symx

            return symx.sym_hex(self.ctx, name, n)
        return self.cex.get(name, "07D0"[:n])

    def chars(self, name, allowed):
        if self.symbolic:
            import symx

            return symx.sym_chars(self.ctx, name, 1, allowed=allowed)
        return self.cex.get(name, allowed[0])

    def real(self, name, lo, hi):
        if self.symbolic:
            import symx

            return symx.sym_real(self.ctx, name, lo, hi)
        return _num(self.cex.get(name, lo))

    def choice(self, name, options):
        if self.symbolic:
            import symx

            return symx.choice(self.ctx, name, options)
        v = self.cex.get(name)
        return next((o for o in options if str(o) == str(v)), options[0])

    def instant(self, base, off):
        if self.symbolic:
            from symx.stubs import SymInstant
            from symx.values import SymReal

            return SymInstant(base, off if isinstance(off, SymReal) else SymReal.const(off))
        from datetime import timedelta as _td

        return base + _td(seconds=float(off))


class _Loop:
    def __init__(self):
        self.soon = []

    def call_soon(self, fn, *a):
        self.soon.append((fn, a))


class _Gwy:
    _zzz = None

    def __init__(self, now_fn):
        self._now = now_fn
        self._loop = _Loop()

    def _dt_now(self):
        return self._now()


def _lifetime_secs(msg):
    """L in seconds (None: cannot expire) - as pkt_lifespan / the sync-cycle payload define it"""
    from ramses_tx.const import Code

    if str(msg.code) == "1F09" and msg.verb != "RQ":
        return msg.payload["remaining_seconds"]
    ls = msg._pkt._lifespan
    if ls is False or ls is None:
        return None
    if ls is True:
        return None
    return ls.total_seconds()


def h_expiry(ctx, head, pay, sym_at=None):
    import symx
    from ramses_tx.message import Message
    from ramses_tx.packet import Packet
    from symx import s_and, s_implies, s_not
    from symx.stubs import SymInstant

    payload = pay
    if sym_at is not None:
        a, b = sym_at
        payload = pay[:a] + symx.sym_hex(ctx, "c", b - a) + pay[b:]
    try:
        msg = Message(Packet.from_file(D.DTM, head + payload))
    except Exception:  # noqa: BLE001
        return "not-decoded"
    e1 = symx.sym_real(ctx, "e1", 0, 10_000_000)
    e2 = symx.sym_real(ctx, "e2", 0, 10_000_000)
    ctx.assume((e1 <= e2).e)
    cur = [e1]
    msg._gwy = _Gwy(lambda: SymInstant(msg.dtm, cur[0]))
    L = _lifetime_secs(msg)
    try:
        x1 = msg._expired
        cur[0] = e2
        x2 = msg._expired
    except Exception as e:  # noqa: BLE001
        ctx.check(False, "C14:expiry-test-never-raises", info=type(e).__name__)
        return "raised"
    ctx.check(True, "C14:expiry-test-never-raises")
    if L is None:
        ctx.check(s_and(s_not(x1), s_not(x2)), "C14:a-message-that-cannot-expire-never-does")
        return "cannot-expire"
    ctx.check(s_implies(e1 < L, s_not(x1)), "C14:not-expired-before-its-lifetime")
    ctx.check(s_implies(e2 < L, s_not(x2)), "C14:not-expired-before-its-lifetime")
    ctx.check(s_implies(e2 >= 2 * L + 3, x2), "C14:expired-after-twice-its-lifetime-plus-grace")
    ctx.check(s_implies(e1 >= 2 * L + 3, x1), "C14:expired-after-twice-its-lifetime-plus-grace")
    ctx.check(s_implies(x1, x2), "C14:expiry-never-un-happens")
    return "ok"


# ---- (b) newest wins

CTL = "01:145038"
FRESH = {
    # code: (dict-form frame builder(idx, valuehex) , key, array builder([(idx, valuehex)]) | None)
    "30C9": (lambda i, v: f"045  I --- {CTL} --:------ {CTL} 30C9 003 " + i + v, "temperature", lambda els: f"045  I --- {CTL} --:------ {CTL} 30C9 {3 * len(els):03d} " + _cat([i + v for i, v in els])),
    "2309": (lambda i, v: f"045  I --- {CTL} --:------ {CTL} 2309 003 " + i + v, "setpoint", lambda els: f"045  I --- {CTL} --:------ {CTL} 2309 {3 * len(els):03d} " + _cat([i + v for i, v in els])),
    "1260": (lambda i, v: f"045 RP --- {CTL} 18:006402 --:------ 1260 003 " + "00" + v, "temperature", None),
    "12B0": (lambda i, v: f"045  I --- {CTL} --:------ {CTL} 12B0 003 " + i + v, "window_open", None),
    "3150": (lambda i, v: f"045  I --- 04:056789 --:------ {CTL} 3150 002 " + i + v[:2], "heat_demand", None),
    "10A0": (lambda i, v: f"045 RP --- {CTL} 18:006402 --:------ 10A0 006 " + "00" + v + "0003E8", "setpoint", None),
    "000A": (lambda i, v: f"045  I --- {CTL} --:------ {CTL} 000A 006 " + i + "10" + v + "0DAC", "min_temp", None),
}


def _cat(parts):
    out = parts[0]
    for p in parts[1:]:
        out = out + p
    return out


def _entity(gwy, dev_id=CTL):
    from ramses_rf.entity_base import _MessageDB

    class E(_MessageDB):
        def __init__(self):  # noqa: super().__init__ not called: only the state DB is exercised
            self._gwy = gwy
            self.id = dev_id
            self._msgs_ = {}
            self._msgz_ = {}

    return E()


def _msg(line, dtm, gwy):
    from ramses_tx.message import Message
    from ramses_tx.packet import Packet

    m = Message(Packet.from_file(dtm, line))
    m._gwy = gwy
    return m


def h_fresh(ctx, code, form, aged):
    """two messages for the same attribute/context with unrelated traffic in between"""
    import symx
    from ramses_tx.const import Code
    from symx import s_implies
    from symx.stubs import SymInstant

    mk, key, mk_arr = FRESH[code]
    if form == "array" and mk_arr is None:
        return "n/a"
    wide = {"12B0": ["0000", "C800"], "3150": None}.get(code)
    v1 = symx.choice(ctx, "v1", ["07D0", "7FFF"] if wide is None else wide)  # the older value: two representatives
    v2 = symx.sym_hex(ctx, "v2", 4) if wide is None else symx.choice(ctx, "v2", wide)  # the newer one: any word
    zone = "0" + symx.sym_chars(ctx, "z", 1, allowed="0123456789AB")
    other_zone = "0" + symx.choice(ctx, "oz", ["C", "D"])
    t = ["2023-01-01T00:00:0%d.000000" % k for k in range(9)]
    off = symx.sym_real(ctx, "age", 0, 10_000_000)
    base = [None]
    gwy = _Gwy(lambda: SymInstant(base[0], off))
    ent = _entity(gwy)
    try:
        if form == "dict":
            m1 = _msg(mk(zone, v1), t[1], gwy)
            m2 = _msg(mk(zone, v2), t[5], gwy)
        else:
            m1 = _msg(mk_arr([(zone, v1), (other_zone, "07D0")]), t[1], gwy)
            m2 = _msg(mk_arr([(other_zone, "0834"), (zone, v2)]), t[5], gwy)
        others = [
            _msg(f"045  I --- {CTL} --:------ {CTL} 1F09 003 FF0532", t[2], gwy),  # another code
            _msg(mk(other_zone, "0BB8"), t[3], gwy) if form == "dict" and code not in ("1260", "10A0") else _msg(f"045  I --- {CTL} --:------ {CTL} 2E04 008 00FFFFFFFFFFFF00", t[3], gwy),  # another zone
            _msg(f"045  I --- 04:111111 --:------ 01:999999 30C9 003 0007D0", t[4], gwy),  # another device/system
        ]
    except Exception as e:  # noqa: BLE001
        return f"not-decoded:{type(e).__name__}"
    base[0] = m2.dtm
    for m in [m1] + others[:2]:
        ent._handle_msg(m)
    ent._handle_msg(others[2])
    ent._handle_msg(m2)
    want = m2.payload.get(key) if isinstance(m2.payload, dict) else next((e.get(key) for e in m2.payload if symx_true(D.eq_struct(e.get("zone_idx"), zone))), None)
    kw = {"zone_idx": zone} if form == "array" else {}
    L = _lifetime_secs(m2)
    try:
        got = ent._msg_value(Code(code), key=key, **kw)
    except Exception as e:  # noqa: BLE001
        ctx.check(False, "C14:attribute-read-never-raises", info=type(e).__name__)
        return "raised"
    for fn, a in gwy._loop.soon:
        fn(*a) if False else None  # deferred deletions are not run between the read and the comparison
    if not aged:
        ctx.assume((off < (L if L is not None else 1)).e)
        ctx.check(D.eq_struct(got, want), "C14:attribute-is-the-newest-message's-value")
        return "fresh"
    if L is None:
        return "cannot-expire"
    ctx.assume((off >= 2 * L + 3).e)
    ctx.check(got is None, "C14:expired-value-reads-as-unknown", info="stale value returned")
    return "aged"


def symx_true(x):
    return x is True or (x is not False and bool(x))


def _device(gwy, dev_id=CTL):
    """a bare Device (it is a _MessageDB): _delete_msg only purges messages whose src is a Device"""
    from ramses_rf.device import Device

    d = object.__new__(Device)
    d._gwy = gwy
    d.id = dev_id
    d._msgs_, d._msgz_ = {}, {}
    d.tcs = None
    return d


def run_purge(env, code):
    """an old array message expires and is purged; a newer per-zone message of the same code must survive"""
    from datetime import datetime as _dt, timedelta as _td

    from ramses_tx.const import Code

    mk, key, mk_arr = FRESH[code]
    v2 = env.hexs("v2", 4)
    zone = "0" + env.chars("z", "0123456789AB")
    age = env.real("age", 0, 3000)
    now0 = _dt(2023, 1, 1, 6, 0, 0)
    gwy = _Gwy(lambda: (env.instant(now0, age)))
    dev = _device(gwy)
    m_old = _msg(mk_arr([("0C", "07D0"), ("0D", "0834")]), "2023-01-01T00:00:01.000000", gwy)  # 6 h old: long expired
    try:
        m_new = _msg(mk(zone, v2), "2023-01-01T06:00:00.000000", gwy)  # `age` seconds old
    except Exception:  # noqa: BLE001  (not a decodable value)
        return None, None, None, None
    for m in (m_old, m_new):
        m.src = dev
    L = _lifetime_secs(m_new)
    from ramses_rf.entity_base import _MessageDB

    _MessageDB._handle_msg(dev, m_old)
    _MessageDB._handle_msg(dev, m_new)
    dev._msg_value_msg(m_old, key=key, zone_idx="0C")  # a read of the expired array schedules its purge ...
    for fn, a in list(gwy._loop.soon):
        fn(*a)  # ... which the loop then runs
    got = dev._msg_value(Code(code), key=key)
    want = m_new.payload.get(key)
    return age, L, got, want


def run_pair(env):
    """an attribute fed by two codes (2309 / 2349): the newer message wins whichever code it is"""
    from ramses_tx.const import Code

    va, vb = env.hexs("va", 4), env.hexs("vb", 4)
    first = env.choice("older", ["2309", "2349"])
    gwy = _Gwy(lambda: None)
    ent = _entity(gwy)
    f2309 = lambda v: f"045  I --- {CTL} --:------ {CTL} 2309 003 01" + v  # noqa: E731
    f2349 = lambda v: f"045  I --- {CTL} --:------ {CTL} 2349 007 01" + v + "00FFFFFF"  # noqa: E731
    older, newer = (f2309, f2349) if first == "2309" else (f2349, f2309)
    try:
        m1 = _msg(older(va), "2023-01-01T00:00:01.000000", gwy)
        m2 = _msg(newer(vb), "2023-01-01T00:00:31.000000", gwy)
    except Exception:  # noqa: BLE001  (not decodable values)
        return None, "not-decoded"
    gwy._now = lambda: env.instant(m2.dtm, 5)
    ent._handle_msg(m1)
    ent._handle_msg(m2)
    got = ent._msg_value((Code._2309, Code._2349), key="setpoint")
    return got, m2.payload.get("setpoint")


def h_purge(ctx, code):
    age, L, got, want = run_purge(XEnv(ctx=ctx), code)
    if age is None:
        return "not-decoded"
    if L is not None:
        ctx.assume((age < L).e)
    ctx.check(D.eq_struct(got, want), "C14:a-purge-of-an-expired-message-keeps-the-newer-one", info="live value lost")
    return "ok"


def h_pair(ctx):
    got, want = run_pair(XEnv(ctx=ctx))
    if want == "not-decoded":
        return want
    ctx.check(D.eq_struct(got, want), "C14:attribute-is-the-newest-message's-value", info="two-code attribute")
    return "ok"


def queries(tier, seed):
    thorough = tier == "thorough"
    qs = []
    for code in ("30C9", "2309"):
        qs.append(Query(f"purge[{code}]", lambda c, code=code: h_purge(c, code), {"h": "purge", "code": code}, group="fresh", max_secs=200, weight=4))
    qs.append(Query("pair[2309,2349]", h_pair, {"h": "pair"}, group="fresh", max_secs=200, weight=4))
    for (verb, code), frames in sorted(D.corpus().items()):
        if verb not in (" I", "RP"):
            continue
        k = 0
        for head, pay, tail in frames:
            if not D.decodes_ok(head, pay, tail):
                continue
            qs.append(Query(f"expiry[{verb}|{code}|{len(pay) // 2}]", lambda c, a=(head, pay): h_expiry(c, *a), {"h": "expiry", "head": head, "pay": pay, "sym_at": None}, group="expiry", max_secs=120, weight=1))
            k += 1
            if k >= (3 if thorough else 1):
                break
    for head in ("045  I --- 01:145038 --:------ 01:145038 1F09 003 ", "045 RP --- 01:145038 18:006402 --:------ 1F09 003 ", "045  W --- 01:145038 04:056789 --:------ 1F09 003 "):
        qs.append(Query(f"expiry[{head[4:6]}|1F09|countdown]", lambda c, a=(head, "FF0000", (2, 6)): h_expiry(c, *a), {"h": "expiry", "head": head, "pay": "FF0000", "sym_at": [2, 6]}, group="expiry", max_secs=300, weight=5))
    codes = list(FRESH) if thorough else ["30C9", "2309", "1260", "12B0"]
    for code in codes:
        for form in ("dict", "array"):
            if form == "array" and FRESH[code][2] is None:
                continue
            for aged in (False, True):
                qs.append(Query(f"fresh[{code}|{form}|{'aged' if aged else 'live'}]", lambda c, a=(code, form, aged): h_fresh(c, *a), {"h": "fresh", "code": code, "form": form, "aged": aged}, group="fresh", max_secs=300, max_paths=50_000, weight=8))

    def canary(c):
        import symx
        from ramses_tx.message import Message
        from ramses_tx.packet import Packet
        from symx.stubs import SymInstant

        msg = Message(Packet.from_file(D.DTM, "045  I --- 01:145038 --:------ 01:145038 30C9 003 0007D0"))
        e = symx.sym_real(c, "e", 0, 100_000)
        msg._gwy = _Gwy(lambda: SymInstant(msg.dtm, e))
        c.check(symx.s_not(msg._expired), "canary")

    qs.append(Query("canary:expiry", canary, canary=True))
    from checks import gwfresh

    qs += gwfresh.queries(tier)
    only = os.environ.get("C14_ONLY")
    if only:
        qs = [q for q in qs if only in q.name or q.canary]
    return qs


# ------------------------------------------------------------------------------------------


def _num(x):
    if isinstance(x, dict) and "num" in x:
        return x["num"] / x["den"]
    return float(x)


def replay(item):
    common.plain_imports()
    from datetime import timedelta as td

    from ramses_tx.const import Code
    from ramses_tx.message import Message
    from ramses_tx.packet import Packet

    cex, prm, label = item["cex"], item["params"], item["label"]
    if prm["h"] == "gwfresh":
        from checks import gwfresh

        return gwfresh.replay(item)
    if prm["h"] == "purge":
        age, L, got, want = run_purge(XEnv(cex=cex), prm["code"])
        return {"reproduced": got != want, "observed": f"{prm['code']}: expired array purged, newer per-zone message {float(age)} s old (lifetime {L} s): read {got!r}, message says {want!r}", "signature": "fresh: purging an expired message removes a newer one"}
    if prm["h"] == "pair":
        got, want = run_pair(XEnv(cex=cex))
        return {"reproduced": got != want, "observed": f"2309/2349, older code {cex.get('older')}: read {got!r}, newest message says {want!r}", "signature": "fresh[pair]: attribute-is-the-newest-message's-value"}
    if prm["h"] == "expiry":
        pay = prm["pay"]
        if prm["sym_at"]:
            a, b = prm["sym_at"]
            pay = pay[:a] + cex["c"] + pay[b:]
        line = prm["head"] + pay
        msg = Message(Packet.from_file(D.DTM, line))
        e1, e2 = _num(cex["e1"]), _num(cex["e2"])
        cur = [e1]
        msg._gwy = _Gwy(lambda: msg.dtm + td(seconds=cur[0]))
        L = _lifetime_secs(msg)
        bad = []
        try:
            x1 = msg._expired
            cur[0] = e2
            x2 = msg._expired
        except Exception as e:  # noqa: BLE001
            return {"reproduced": True, "observed": f"{line!r}: _expired raised {type(e).__name__}: {e} (lifetime {L} s, clock +{e1} s)", "signature": f"_expired raises {type(e).__name__}"}
        if L is None:
            if x1 or x2:
                bad.append("expired although it cannot expire")
        else:
            if (e1 < L and x1) or (e2 < L and x2):
                bad.append(f"expired before its lifetime {L} s")
            if (e2 >= 2 * L + 3 and not x2) or (e1 >= 2 * L + 3 and not x1):
                bad.append(f"not expired after 2x{L}+3 s")
            if x1 and not x2:
                bad.append("expiry un-happened")
        return {"reproduced": bool(bad), "observed": f"{line!r} lifetime {L} s, read at +{e1} s -> {x1}, +{e2} s -> {x2}: {'; '.join(bad)}", "signature": f"expiry: {label.split(':', 1)[1]}"}
    # fresh
    code, form, aged = prm["code"], prm["form"], prm["aged"]
    mk, key, mk_arr = FRESH[code]
    v1, v2 = cex.get("v1", "07D0"), cex.get("v2", "0834")
    zone, oz = "0" + cex.get("z", "1"), "0" + cex.get("oz", "D")
    t = ["2023-01-01T00:00:0%d.000000" % k for k in range(9)]
    off = _num(cex["age"])
    base = [None]
    gwy = _Gwy(lambda: base[0] + td(seconds=off))
    ent = _entity(gwy)
    if form == "dict":
        m1, m2 = _msg(mk(zone, v1), t[1], gwy), _msg(mk(zone, v2), t[5], gwy)
    else:
        m1 = _msg(mk_arr([(zone, v1), (oz, "07D0")]), t[1], gwy)
        m2 = _msg(mk_arr([(oz, "0834"), (zone, v2)]), t[5], gwy)
    others = [
        _msg(f"045  I --- {CTL} --:------ {CTL} 1F09 003 FF0532", t[2], gwy),
        _msg(mk(oz, "0BB8"), t[3], gwy) if form == "dict" and code not in ("1260", "10A0") else _msg(f"045  I --- {CTL} --:------ {CTL} 2E04 008 00FFFFFFFFFFFF00", t[3], gwy),
        _msg("045  I --- 04:111111 --:------ 01:999999 30C9 003 0007D0", t[4], gwy),
    ]
    base[0] = m2.dtm
    for m in [m1] + others + [m2]:
        ent._handle_msg(m)
    want = m2.payload.get(key) if isinstance(m2.payload, dict) else next((e.get(key) for e in m2.payload if e.get("zone_idx") == zone), None)
    kw = {"zone_idx": zone} if form == "array" else {}
    try:
        got = ent._msg_value(Code(code), key=key, **kw)
    except Exception as e:  # noqa: BLE001
        return {"reproduced": True, "observed": f"read raised {type(e).__name__}: {e}", "signature": f"fresh[{form}]: attribute read raises {type(e).__name__}"}
    L = _lifetime_secs(m2)
    if not aged:
        bad = got != want
        return {"reproduced": bad, "observed": f"{code} {form}: zone {zone} values {v1} then {v2}: read {got!r}, newest message says {want!r}", "signature": f"fresh[{form}]: attribute-is-the-newest-message's-value"}
    bad = got is not None
    return {"reproduced": bad, "observed": f"{code} {form}: message {off} s old (lifetime {L} s): first read returns {got!r} instead of unknown", "signature": "fresh: first read after expiry returns the stale value"}
