"""C11 - transmit regulation holds for every send pattern (duty cycle, write spacing).

The real regulators run on the virtual-time loop with ``perf_counter`` = the virtual clock:

* ``limit_duty_cycle`` (the real closure, freshly instantiated around a recording write, and the
  instance that decorates ``PortTransport.write_frame``): k write requests at solver-chosen real
  times (sequential or overlapping callers), frame sizes by selector, and - for the inductive
  step - the bucket level an arbitrary solver real in [-one frame, capacity];
* ``PortTransport.write_frame`` + ``_leak_sem`` (the one-token-per-50-ms semaphore) on a bare
  PortTransport object with a recording serial write;
* ``MqttTransport.write_frame`` (token bucket, drop-if-over-budget) on a bare MqttTransport object
  from an arbitrary token state.

Per path the solver shows, for every pair of write instants w_i <= w_j:
bits(i..j) <= rate x (w_j - w_i) + one bucket + one frame per caller already past the bucket test at
w_i; writes j - i <= (w_j - w_i)/0.05 + 1; MQTT publishes <= rate x window + allowance, an accepted
write sleeps at most 1 s, an over-budget write returns at once without publishing; every accepted
frame is written exactly once, unaltered, sequential requests in order."""
from __future__ import annotations

import os
from fractions import Fraction

from checks import common
from symx.runner import Query

PROPERTY = "C11"
LEVEL = "other"
EXPLANATION = __doc__
FUNCTIONS = ["ramses_tx.transport:limit_duty_cycle", "ramses_tx.transport:avoid_system_syncs", "ramses_tx.transport:PortTransport.write_frame", "ramses_tx.transport:PortTransport._leak_sem",
             "ramses_tx.transport:_FullTransport.write_frame", "ramses_tx.transport:MqttTransport.write_frame"]
BOUNDS = {"quick": {"requests": "k <= 3 per episode (+ an arbitrary symbolic bucket / token level, which makes each episode an inductive step)", "frame sizes": "payload 1 / 24 / 48 bytes by selector", "times": "solver reals in [0, 200] s"},
          "thorough": {"requests": "k <= 4", "times": "[0, 400] s"}}
OUTSIDE = ["avoid_system_syncs with pending sync cycles (wall-clock dt_now)", "the serial driver / MQTT client below the recorded write"]
STUBS = ["time.perf_counter as seen by ramses_tx.transport -> the virtual clock", "PortTransport / MqttTransport objects created without __init__ (only the attributes write_frame reads), serial.write / client.publish recorded",
         "event loop: symx.vloop.VLoop"]
ASSUMPTIONS = ["bucket level invariant for the inductive step: -max_frame x (callers in flight) <= level <= capacity"]
MIN_CONCLUSIVE_FRACTION = 0.7
SIZES = {1: 330 + 2 * 10, 24: 330 + 48 * 10, 48: 330 + 96 * 10}
RATE = Fraction(384)  # bits per second: 38400 x 1 %
CAP = RATE * 60
EPS = Fraction(1, 10**6)  # the library computes in binary floating point, the solver in exact rationals


def setup(tier):
    common.install()
    import ramses_tx.transport  # noqa: F401


def _frame(n, tag):
    return f"RQ --- 18:000730 01:145038 --:------ 0404 {n:03d} " + (f"{tag:02X}" * n)


def _cells(fn):
    """closure cells of the duty-cycle wrapper by variable name"""
    return dict(zip(fn.__code__.co_freevars, fn.__closure__))


class Env:
    def __init__(self, ctx=None, cex=None):
        self.ctx, self.cex = ctx, cex
        self.symbolic = ctx is not None
        self.failed = []

    def real(self, name, lo, hi):
        if self.symbolic:
            import symx

            return symx.sym_real(self.ctx, name, lo, hi)
        v = self.cex.get(name, lo)
        return Fraction(v["num"], v["den"]) if isinstance(v, dict) else Fraction(v)

    def choice(self, name, options):
        if self.symbolic:
            import symx

            return symx.choice(self.ctx, name, options)
        v = self.cex.get(name)
        return next((o for o in options if o == v or str(o) == str(v)), options[0])

    def flag(self, name):
        if self.symbolic:
            import symx

            return symx.flag(self.ctx, name)
        return bool(self.cex.get(name, False))

    def check(self, cond, label, info=None):
        if self.symbolic:
            return self.ctx.check(cond, label, info)
        if not cond:
            self.failed.append((label, info))
        return bool(cond)

    def assume_le(self, a, b):
        if self.symbolic:
            self.ctx.assume((a <= b).e)


def _loop(env):
    from symx.vloop import VLoop

    if env.symbolic:
        return VLoop(0)

    class FracLoop(VLoop):
        def call_later(self, delay, cb, *args, context=None):
            return self.call_at(self._now + Fraction(delay), cb, *args, context=context)

        def call_at(self, when, cb, *args, context=None):
            return VLoop.call_at(self, Fraction(when), cb, *args, context=context)

    return FracLoop(Fraction(0))


def run_duty(env, k, overlap, level_sym, via):
    """k requests through the duty-cycle regulator; returns (requests, writes)"""
    import asyncio
    from ramses_tx import transport as T

    loop = _loop(env)
    T.perf_counter = lambda: loop.time()
    writes, entered = [], []

    if via == "fresh":
        async def rec(self, frame, *a, **kw):
            writes.append((loop.time(), frame))

        fn = T.limit_duty_cycle(T.MAX_DUTY_CYCLE_RATE)(rec)
        tx = object()
    else:  # the decorated PortTransport.write_frame itself (duty cycle + sync avoidance + inter-write gap)
        fn = T.PortTransport.write_frame
        tx = object.__new__(T.PortTransport)
        tx._disable_sending = False
        tx._closing = False
        tx._extra = {}
        tx._loop = loop

        class _Serial:
            def write(self, data):
                writes.append((loop.time(), data.decode("ascii").rstrip("\r\n")))

        tx._serial = _Serial()
        tx._inbound_rule, tx._outbound_rule = {}, {}
        from collections import deque

        tx._transmit_times = deque(maxlen=99)
        T._global_sync_cycles.clear()
    cells = _cells(fn)
    cells["bits_in_bucket"].cell_contents = float(CAP) if not level_sym else None
    cells["last_time_bit_added"].cell_contents = loop.time()
    level = CAP
    if level_sym:
        # (port queries: at most ~1 s of refill is ever awaited, the token task being modelled step by step)
        level = env.real("level", -SIZES[48] if via == "fresh" else 0, CAP)
        cells["bits_in_bucket"].cell_contents = level
    reqs = []
    prev = 0
    for i in range(k):
        n = env.choice(f"n{i}", [1, 24, 48])
        t = env.real(f"t{i}", 0, 200 if via == "fresh" else Fraction(1, 5))  # (the 50 ms token task runs all along in the port queries)
        env.assume_le(prev, t)
        prev = t
        reqs.append({"i": i, "n": n, "t": t, "frame": _frame(n, i), "done": None})

    async def one(r):
        await asyncio.sleep(r["t"])
        r["called"] = loop.time()
        await fn(tx, r["frame"])
        r["done"] = loop.time()

    async def seq():
        for r in reqs:
            d = r["t"] - loop.time()
            await asyncio.sleep(d)  # (a non-positive delay returns at once)
            r["called"] = loop.time()
            await fn(tx, r["frame"])
            r["done"] = loop.time()

    from symx.vloop import running

    with running(loop):
        if via != "fresh":
            tx._leaker_sem = asyncio.BoundedSemaphore()
            leak = loop.create_task(T.PortTransport._leak_sem(tx))
        tasks = [loop.create_task(one(r)) for r in reqs] if overlap else [loop.create_task(seq())]
    loop.run(until=lambda: all(t.done() for t in tasks), horizon=10_000 if via == "fresh" else 30)
    hung = [t for t in tasks if not t.done()]
    errs = [t.exception() for t in tasks if t.done() and not t.cancelled() and t.exception() is not None]
    if via != "fresh":
        leak.cancel()
    return reqs, writes, level, hung, errs, loop


def oracle_duty(env, reqs, writes, level, hung, errs, overlap, via):
    env.check(not hung, "C11:every-accepted-frame-is-eventually-written", info=len(hung))
    env.check(not errs, "C11:regulation-never-raises", info=str(errs[:1])[:80])
    frames = [f for _, f in writes]
    env.check(sorted(frames) == sorted(r["frame"] for r in reqs), "C11:each-frame-written-exactly-once-unaltered", info=len(frames))
    if not overlap:
        env.check(frames == [r["frame"] for r in reqs], "C11:sequential-requests-written-in-order")
    size = {r["frame"]: SIZES[r["n"]] for r in reqs}
    ws = [(t, size.get(f, 0)) for t, f in writes]
    # bits in any window between two writes
    pending = (len(reqs) - 1) * SIZES[48] if overlap else 0  # callers already past the bucket test when the window opens
    for i in range(len(ws)):
        for j in range(i, len(ws)):
            bits = sum(b for _, b in ws[i : j + 1])
            # the statement: allowance of the window + one full bucket (+ one frame per pending write)
            env.check(bits <= RATE * (ws[j][0] - ws[i][0]) + CAP + pending + EPS, "C11:bits-within-duty-cycle-allowance", info=f"{i}..{j}")
    # the inductive form: from the given bucket level at time 0, what has been written by w_j
    for j in range(len(ws)):
        bits = sum(b for _, b in ws[: j + 1])
        pend_j = pending
        if overlap and via == "fresh":
            # exact accounting of the regulator: a caller that found the bucket short sleeps for what was missing *at
            # its test*; what other callers write during that sleep is over-committed (the statement's 'one frame per
            # write already pending') and stays in the bucket as a debt.  So after write j the excess over level +
            # refill is at most the bits the *other* callers wrote between the call of j's writer and w_j; a caller
            # that arrives after the others are done finds their over-shoot still to be repaid.
            me = next(r for r in reqs if r["frame"] == writes[j][1])
            pend_j = 0
            for q in range(j):
                if me.get("called") is None or ws[q][0] >= me["called"]:
                    pend_j = pend_j + ws[q][1]
        env.check(bits <= level + RATE * ws[j][0] + pend_j + EPS, "C11:bits-within-level-plus-refill", info=f"..{j}")
    if via != "fresh":
        for i in range(len(ws)):
            for j in range(i + 1, len(ws)):
                env.check(ws[j][0] - ws[i][0] >= Fraction(5, 100) * (j - i - 1) - EPS, "C11:writes-spaced-by-the-minimum-gap", info=f"{i}..{j}")


def h_duty(ctx, k, overlap, level_sym, via):
    env = Env(ctx=ctx)
    out = run_duty(env, k, overlap, level_sym, via)
    oracle_duty(env, *out[:5], overlap, via)
    return (len(out[1]), len(out[3]))


# ---- MQTT


def run_mqtt(env, k, overlap=False):
    import asyncio
    from ramses_tx import transport as T

    loop = _loop(env)
    T.perf_counter = lambda: loop.time()
    tx = object.__new__(T.MqttTransport)
    tx._disable_sending = False
    tx._closing = False
    tx._extra = {}
    tx._loop = loop
    pubs = []

    class _Client:
        def publish(self, topic, payload=None, qos=0):
            pubs.append((loop.time(), payload))
            return True

    tx.client = _Client()
    tx._inbound_rule, tx._outbound_rule = {}, {}
    from collections import deque

    tx._transmit_times = deque(maxlen=99)
    tx._topic_pub = "t"
    tx._mqtt_qos = 0
    tx._connected = True
    mx = env.real("max_tokens", 80, 160)
    lv = env.real("num_tokens", -Fraction(4, 3), 160)  # at rest the debt never exceeds one refill second
    env.assume_le(lv, mx)
    tx._max_tokens, tx._num_tokens, tx._timestamp = mx, lv, loop.time()
    reqs, prev = [], 0
    for i in range(k):
        t = env.real(f"t{i}", 0, 200)
        env.assume_le(prev, t)
        prev = t
        reqs.append({"i": i, "t": t, "frame": _frame(1, i)})

    async def seq():
        for r in reqs:
            await asyncio.sleep(r["t"] - loop.time())
            r["called"] = loop.time()
            n0 = len(pubs)
            await T.MqttTransport.write_frame(tx, r["frame"])
            r["done"] = loop.time()
            r["published"] = len(pubs) - n0

    async def one(r):
        await asyncio.sleep(r["t"])
        r["called"] = loop.time()
        await T.MqttTransport.write_frame(tx, r["frame"])
        r["done"] = loop.time()
        r["published"] = sum(1 for _, p in pubs if r["frame"] in p)

    async def par():
        await asyncio.gather(*[one(r) for r in reqs])

    from symx.vloop import running

    with running(loop):
        task = loop.create_task(par() if overlap else seq())
    loop.run(until=task, horizon=10_000)
    return reqs, pubs, mx, lv, task, tx


def oracle_mqtt(env, reqs, pubs, mx, lv, task, tx, overlap=False):
    done = task.done()
    env.check(done, "C11:mqtt:every-call-ends")
    if not done:
        return
    env.check(task.exception() is None, "C11:mqtt:never-raises", info=str(task.exception())[:80])
    if task.exception() is not None:
        return
    rate = Fraction(80, 60)
    for r in reqs:
        env.check(r["published"] in (0, 1), "C11:mqtt:written-at-most-once")
        wait = r["done"] - r["called"]
        if r["published"] == 0:
            env.check(wait == 0, "C11:mqtt:over-budget-write-is-dropped-at-once")
        elif not overlap:
            env.check(wait <= 1 + EPS, "C11:mqtt:accepted-write-sleeps-at-most-one-second")
        else:  # several callers asleep at once: the debt of those ahead adds up, but stays below one refill second each
            env.check(wait <= len(reqs) + EPS, "C11:mqtt:accepted-write-sleeps-at-most-one-second")
    ts = [t for t, _ in pubs]
    for i in range(len(ts)):
        for j in range(i, len(ts)):
            # publishes in [w_i, w_j] <= rate x window + what the bucket held + the one-token debt
            allowance = mx + rate + 1
            env.check((j - i + 1) <= rate * (ts[j] - ts[i]) + allowance, "C11:mqtt:publishes-within-token-allowance", info=f"{i}..{j}")
    for j in range(len(ts)):  # inductive form: from the given token level at time 0
        env.check((j + 1) <= lv + rate * ts[j] + rate + Fraction(1, 1000), "C11:mqtt:publishes-within-level-plus-refill", info=f"..{j}")
    if not overlap:
        env.check(tx._num_tokens >= -rate - Fraction(1, 1000), "C11:mqtt:token-debt-bounded")


def h_mqtt(ctx, k, overlap=False):
    env = Env(ctx=ctx)
    out = run_mqtt(env, k, overlap)
    oracle_mqtt(env, *out, overlap=overlap)
    return (len(out[1]),)


def queries(tier, seed):
    thorough = tier == "thorough"
    qs = []
    for via in ("fresh", "port"):
        for k in ((1, 2, 3, 4) if thorough else (1, 2, 3)):
            for overlap in (False, True):
                if overlap and k == 1:
                    continue
                for level_sym in (False, True):
                    if via == "port" and ((k > 2 and (overlap or level_sym)) or (k == 2 and level_sym and not thorough) or k > 3):
                        continue  # (port: k = 3 only sequential from a full bucket - the write-spacing case; the 50 ms token task is stepped)
                    qs.append(Query(f"duty[{via}|k={k}|{'overlap' if overlap else 'seq'}|{'level=sym' if level_sym else 'full'}]", lambda c, a=(k, overlap, level_sym, via): h_duty(c, *a),
                                    {"h": "duty", "k": k, "overlap": overlap, "level_sym": level_sym, "via": via}, group=f"duty:{via}", max_secs=600 if thorough else 200, max_paths=200_000, weight=k * (2 if overlap else 1), split_depth=8))
    for k in ((1, 2, 3, 4) if thorough else (1, 2, 3)):
        qs.append(Query(f"mqtt[k={k}]", lambda c, a=(k,): h_mqtt(c, *a), {"h": "mqtt", "k": k}, group="mqtt", max_secs=900 if thorough else 200, max_paths=200_000, weight=k, split_depth=8))
    for k in ((2, 3, 4, 5) if thorough else (2, 3, 4)):
        qs.append(Query(f"mqtt[k={k}|overlap]", lambda c, a=(k, True): h_mqtt(c, *a), {"h": "mqtt", "k": k, "overlap": True}, group="mqtt", max_secs=900 if thorough else 200, max_paths=200_000, weight=2 * k, split_depth=8))

    def canary(c):
        env = Env(ctx=c)
        reqs, writes, level, hung, errs, loop = run_duty(env, 2, False, True, "fresh")
        if len(writes) == 2:
            env.check(writes[1][0] - writes[0][0] >= 1, "canary")  # false: a full bucket lets two frames out back to back

    qs.append(Query("canary:duty", canary, canary=True))
    only = os.environ.get("C11_ONLY")
    if only:
        qs = [q for q in qs if only in q.name or q.canary]
    return qs


def replay(item):
    common.plain_imports()
    prm, cex, label = item["params"], item["cex"], item["label"]
    env = Env(cex=cex)
    if prm["h"] == "duty":
        out = run_duty(env, prm["k"], prm["overlap"], prm["level_sym"], prm["via"])
        oracle_duty(env, *out[:5], prm["overlap"], prm["via"])
        desc = f"requests {[(float(r['t']), r['n']) for r in out[0]]} level {float(out[2])} -> writes {[(float(t), len(f)) for t, f in out[1]]}"
    else:
        out = run_mqtt(env, prm["k"], prm.get("overlap", False))
        oracle_mqtt(env, *out, overlap=prm.get("overlap", False))
        desc = f"tokens {float(out[3])}/{float(out[2])}, requests {[float(r['t']) for r in out[0]]} -> publishes {[float(t) for t, _ in out[1]]}, waits {[float(r.get('done', 0) - r.get('called', 0)) for r in out[0]]}"
    failed = [l for l, _ in env.failed]
    return {"reproduced": label in failed, "observed": f"{desc} :: failed={sorted(set(failed))}"[:800], "signature": f"{prm['h']}[{prm.get('via', 'mqtt')}]: {label.split(':', 1)[1]}"}
