"""Shared harness for C07 / C08 / C09: the real PortProtocol + ProtocolContext (QoS FSM) on the
virtual-time loop, driven by a stub transport ("ether") whose echo / reply arrival times are
solver reals and whose losses, duplicates, write failures and disconnects are solver Booleans.

The harness is written against a tiny ``env`` interface so that exactly the same code runs
symbolically (SymEnv: values are symx objects, ``check`` is an SMT obligation) and concretely in
replay (ReplayEnv: values come from the counterexample, times are exact Fractions)."""
from __future__ import annotations

from fractions import Fraction

HGI = "18:123456"
CTL = "01:145038"


# ------------------------------------------------------------------------------------------
# environments


class SymEnv:
    symbolic = True

    def __init__(self, ctx):
        import symx

        self.ctx, self.sx = ctx, symx

    def flag(self, name):
        return self.sx.flag(self.ctx, name)

    def real(self, name, lo, hi):
        return self.sx.sym_real(self.ctx, name, lo, hi)

    def choice(self, name, options):
        return self.sx.choice(self.ctx, name, options)

    def check(self, cond, label, info=None):
        return self.ctx.check(cond, label, info)

    def t0(self):
        return 0

    def all_(self, *xs):
        return self.sx.s_and(*xs)

    def any_(self, *xs):
        return self.sx.s_or(*xs)

    def implies(self, a, b):
        return self.sx.s_implies(a, b)

    def min_(self, a, b):
        """min of two (possibly symbolic) numbers as a value"""
        import z3
        from symx.values import SymReal

        if not isinstance(a, SymReal) and not isinstance(b, SymReal):
            return min(a, b)
        ea, eb = SymReal.lift(a), SymReal.lift(b)
        return SymReal(z3.If(ea <= eb, ea, eb))


class ReplayEnv:
    symbolic = False

    def __init__(self, cex):
        self.cex = dict(cex)
        self.failed = []
        self.passed = 0

    def flag(self, name):
        return bool(self.cex.get(name, False))

    def real(self, name, lo, hi):
        v = self.cex.get(name, lo)
        if isinstance(v, dict):
            return Fraction(v["num"], v["den"])
        return Fraction(v).limit_denominator(10**12) if isinstance(v, float) else Fraction(v)

    def choice(self, name, options):
        v = self.cex.get(name)
        for o in options:
            if o == v or repr(o) == v or str(o) == str(v):
                return o
        return options[0]

    def check(self, cond, label, info=None):
        if not cond:
            self.failed.append((label, info))
        else:
            self.passed += 1
        return bool(cond)

    def t0(self):
        return Fraction(0)

    def all_(self, *xs):
        return all(xs)

    def any_(self, *xs):
        return any(xs)

    def implies(self, a, b):
        return (not a) or b

    def min_(self, a, b):
        return min(a, b)


class FracLoopMixin:
    pass


TIME_EPS = Fraction(1, 10**9)  # asyncio adds float delays to the clock: replayed instants carry binary rounding
LATENCY = Fraction(1, 100)  # timers due within this window of the one being run may share its loop iteration


def _batch_hook(env):
    n = [0]

    def hook(first, other, now=None):
        ref = first._when if first is not None else now
        if not (other._when <= ref + LATENCY):  # may fork (symbolic times)
            return False
        n[0] += 1
        return env.flag(f"batch_{n[0]}")

    return hook


def make_loop(env, cfg=None):
    from symx.vloop import VLoop

    hook = _batch_hook(env) if (cfg or {}).get("latency") else None
    if env.symbolic:
        return VLoop(0, batch_hook=hook)

    class FracLoop(VLoop):
        """exact rational clock for replay (floats such as 0.5 convert exactly)"""

        def call_later(self, delay, cb, *args, context=None):
            return self.call_at(self._now + Fraction(delay), cb, *args, context=context)

        def call_at(self, when, cb, *args, context=None):
            return VLoop.call_at(self, Fraction(when), cb, *args, context=context)

    return FracLoop(Fraction(0), batch_hook=hook)


# ------------------------------------------------------------------------------------------
# the stub transport / radio / responding devices


class Ether:
    def __init__(self, env, loop, proto, cfg):
        self.env, self.loop, self.proto, self.cfg = env, loop, proto, cfg
        self.writes = []  # (time, cmd_idx | None, frame)
        self.wseq = []  # event sequence number of each write (same order as self.writes)
        self.seq = 0  # event counter shared by writes and caller completions (orders events at the same instant)
        self.n = 0
        self.budget = cfg.get("deliveries", 2)
        self.owner = {}  # id(pkt) -> (cmd_idx, 'echo' | 'reply' | 'foreign')
        self.keep = []  # keep packets alive (ids must stay unique)
        self.handles = []
        self.cmds = {}  # frame text -> cmd_idx
        self.closing = False
        self.delivered = []
        self.failed_writes = 0

    # transport API used by the protocol
    def get_extra_info(self, name, default=None):
        from ramses_tx.const import SZ_ACTIVE_HGI, SZ_IS_EVOFW3

        return {SZ_ACTIVE_HGI: HGI, SZ_IS_EVOFW3: True}.get(name, default)

    def is_closing(self):
        return self.closing

    def close(self):
        self.closing = True

    def _pkt(self, frame, rssi="045"):
        from datetime import datetime as dt
        from ramses_tx.packet import Packet

        p = Packet.from_port(dt(2024, 1, 1, 12, 0, 0), f"{rssi} {frame}")
        self.keep.append(p)
        return p

    def _schedule(self, tag, frame, owner, dmax=None):
        """maybe deliver ``frame`` to the protocol at a symbolic time (within the delivery budget)"""
        if self.budget <= 0:
            return
        if self.env.flag(f"lost_{tag}"):
            return
        self.budget -= 1
        d = self.env.real(f"d_{tag}", 0, dmax if dmax is not None else self.cfg.get("dmax", 10))
        pkt = self._pkt(frame)
        self.owner[id(pkt)] = owner
        self.handles.append(self.loop.call_later(d, self._deliver, pkt))

    def _deliver(self, pkt):
        self.delivered.append((self.loop.time(), self.owner.get(id(pkt))))
        self.proto.pkt_received(pkt)

    def reply_frame(self, frame, alt_ctx=False):
        """what a conforming device answers (RQ -> RP, W -> I); None if no reply is due"""
        f = frame.split(" ")
        # fields: verb seqn a0 a1 a2 code len payload   (verb ' I'/' W' splits into '', 'I')
        if frame[:2] == "RQ":
            verb = "RP"
        elif frame[:2] == " W":
            verb = " I"
        else:
            return None
        flds = frame[3:].split(" ")  # seqn a0 a1 a2 code len payload
        seqn, a0, a1, a2, code, _len, payload = flds
        dst = a1
        src_back = a0.replace("18:000730", HGI)
        idx = payload[:2]
        if alt_ctx:
            idx = "%02X" % ((int(idx, 16) + 1) % 12)
        if code == "30C9":
            body = idx + "07D0"
        elif code == "2309":
            body = idx + "07D0"
        elif code == "1F09":
            body = "00" + "0514"
        else:
            body = payload
        return f"{verb} --- {dst} {src_back} --:------ {code} {len(body) // 2:03d} {body}"

    async def write_frame(self, frame, disable_tx_limits=False):
        from ramses_tx import exceptions as exc

        i = self.n
        self.n += 1
        ci = self.cmds.get(frame)
        self.writes.append((self.loop.time(), ci, frame))
        self.seq += 1
        self.wseq.append(self.seq)
        if self.cfg.get("write_failures") and self.failed_writes < self.cfg["write_failures"]:
            if self.env.flag(f"wfail_{i}"):
                self.failed_writes += 1
                raise exc.TransportError("stub: write failed")
        echo = frame.replace("18:000730", HGI)
        self._schedule(f"e{i}", echo, (ci, "echo"))
        rp = self.reply_frame(frame)
        if rp is not None and not self.cfg.get("no_replies"):
            self._schedule(f"r{i}", rp, (ci, "reply"))
        if self.cfg.get("duplicates"):
            self._schedule(f"e{i}dup", echo, (ci, "echo"))
            if rp is not None and not self.cfg.get("no_replies"):
                self._schedule(f"r{i}dup", rp, (ci, "reply"))
        if self.cfg.get("foreign") and i == 0 and rp is not None:
            # a near-miss: same device and code, another zone (must not be taken for the reply)
            self._schedule("foreign", self.reply_frame(frame, alt_ctx=True), (ci, "foreign"))

    def cancel_pending(self):
        for h in self.handles:
            h.cancel()


# ------------------------------------------------------------------------------------------


def mk_cmd(kind, idx, src="18:000730"):
    from ramses_tx.command import Command

    if kind == "RQ":  # a reply is due
        return Command(f"RQ --- {src} {CTL} --:------ 30C9 001 {idx:02X}")
    if kind == "W":  # a reply (I) is due
        return Command(f" W --- 18:000730 {CTL} --:------ 2309 003 {idx:02X}07D0")
    if kind == "I":  # no reply is ever due: echo only
        return Command(f" I --- 18:000730 --:------ 18:000730 30C9 003 {idx:02X}07D0")
    raise ValueError(kind)


def _err_kind(e):
    """classify a ProtocolError without touching a message that may embed a symbolic number"""
    try:
        from symx.strings import Tainted
    except Exception:  # noqa: BLE001
        Tainted = ()

    if isinstance(e.__cause__, TimeoutError):
        return "caller-timeout"
    msg = e.args[0] if e.args else ""
    if isinstance(msg, Tainted) or not isinstance(msg, str):
        return "other"
    try:
        if "maximum retries" in msg:
            return "max-retries"
        if "Connection lost" in msg:
            return "connection-lost"
        if "no active transport" in msg:
            return "inactive"
        if "write failed" in msg:
            return "write-failed"
        return "other:" + msg[-50:]
    except BaseException as x:  # noqa: BLE001
        if isinstance(x, KeyboardInterrupt) and type(x) is KeyboardInterrupt:
            raise
        return "other"


class _Clock:
    """strictly increasing stand-in for dt.now() in the FSM's queue entries"""

    n = 0

    @classmethod
    def now(cls):
        from datetime import datetime, timedelta

        cls.n += 1
        return datetime(2024, 1, 1) + timedelta(microseconds=cls.n)


def _site(e):
    """'function: source line' of the innermost library frame an exception was raised in"""
    import linecache
    import traceback

    try:
        tb = [f for f in traceback.extract_tb(e.__traceback__) if "ramses_" in f.filename] or traceback.extract_tb(e.__traceback__)
        f = tb[-1]
        text = " ".join(linecache.getline(f.filename, f.lineno + k).strip() for k in range(3))
        return f"{f.name}: {text[:90]}"
    except Exception:  # noqa: BLE001
        return "?"


def _excs(loop):
    out = []
    for c in loop.exc_contexts:
        e = c.get("exception")
        out.append((f"{type(e).__name__} in {_site(e)}" if e is not None else str(c.get("message")))[:140])
    return out


def run_episode(env, cfg):
    """Run one episode; returns the observation record (times may be symbolic)."""
    import asyncio
    from symx.vloop import running
    from ramses_tx import exceptions as exc
    from ramses_tx import protocol_fsm as FSM
    from ramses_tx.const import Priority
    from ramses_tx.protocol import PortProtocol
    from ramses_tx.typing import QosParams

    FSM.dt = _Clock
    loop = make_loop(env, cfg)
    with running(loop):
        proto = PortProtocol(lambda m: None, disable_qos=cfg.get("disable_qos", False))
    ether = Ether(env, loop, proto, cfg)
    proto.connection_made(ether, ramses=True)

    ncmd = cfg.get("ncmd", 1)
    kinds = cfg.get("kinds", ["RQ"] * ncmd)
    prios = cfg.get("priorities")
    callers = []
    for i in range(ncmd):
        cmd = mk_cmd(kinds[i], 0 if cfg.get("twins") else i, **({"src": "04:056789"} if cfg.get("impersonate") else {}))
        ether.cmds.setdefault(str(cmd), i)
        ether.cmds.setdefault(cmd._frame, i)
        T = cfg.get("timeout", 20.0)
        if isinstance(T, (list, tuple)):
            T = T[i]
        if T == "sym":
            T = env.real(f"T{i}", Fraction(1, 100), cfg.get("Tmax", 30))
            # replay: the exact rational the solver chose (a float would move a value that sits exactly on a timer
            # or on the latency window off that boundary, and the replayed schedule would be another one)
        if prios == "sym":
            pr = env.choice(f"prio{i}", [Priority.HIGH, Priority.DEFAULT, Priority.LOW])
        else:
            pr = (prios or [Priority.DEFAULT] * ncmd)[i]
        start = 0
        if cfg.get("stagger") and i > 0:
            start = env.real(f"start{i}", 0, cfg.get("stagger"))
            if cfg.get("near_T0"):
                # only the neighbourhood of the first caller's timeout instant (the rest of the plane is the subject of
                # the other two-caller queries): |start - T0| <= 20 ms
                near = Fraction(2, 100)
                if env.symbolic:
                    env.ctx.assume(env.all_(start >= callers[0]["T"] - near, start <= callers[0]["T"] + near).e)
        callers.append({"i": i, "cmd": cmd, "T": T, "prio": pr, "start": start, "kind": kinds[i], "outcome": None, "t_start": None, "t_done": None})

    async def caller(c):
        if c["i"] > 0 and cfg.get("stagger"):
            await asyncio.sleep(c["start"])
        c["t_start"] = loop.time()
        T_arg = float(c["T"]) if getattr(env, "float_timeouts", False) else c["T"]
        qos = QosParams(max_retries=cfg.get("max_retries", 3), timeout=T_arg, wait_for_reply=cfg.get("wait_for_reply", None))
        try:
            pkt = await proto.send_cmd(c["cmd"], priority=c["prio"], qos=qos)
            c["outcome"] = ("pkt", ether.owner.get(id(pkt), ("?", "unknown")))
        except exc.ProtocolError as e:
            c["outcome"] = ("err", type(e).__name__, _err_kind(e))
        except BaseException as e:  # noqa: BLE001  anything else is a C07 violation
            if isinstance(e, KeyboardInterrupt):
                raise
            c["outcome"] = ("bad-exc", type(e).__name__, str(e)[:80])
        c["t_done"] = loop.time()
        ether.seq += 1
        c["seq_done"] = ether.seq

    tasks = [loop.create_task(caller(c)) for c in callers]

    # optional faults at symbolic times
    if cfg.get("disconnect"):
        td = env.real("t_disconnect", 0, cfg.get("disconnect"))
        # what the transport reports: a clean close, or the driver's own exception (a USB stick pulled out: OSError)
        why = env.choice("disconnect_err", ["none", "OSError"])
        loop.call_later(td, proto.connection_lost, None if why == "none" else OSError("injected: device reports readiness to read but returned no data"))
        if cfg.get("reconnect"):
            tr = env.real("t_reconnect_after", 0, 5)

            def _reconnect():
                proto.connection_made(ether, ramses=True)  # the way a transport (re)binds

            loop.call_later(td + tr, _reconnect)
    if cfg.get("stray"):
        # an unrelated / stale packet arriving at any time in any state
        ts = env.real("t_stray", 0, cfg.get("stray"))
        what = env.choice("stray_kind", ["old-echo", "old-reply", "other", "bad-idx"])
        fr = {"old-echo": f"RQ --- {HGI} {CTL} --:------ 30C9 001 00", "old-reply": f"RP --- {CTL} {HGI} --:------ 30C9 003 0007D0",
              "other": f" I --- {CTL} --:------ {CTL} 1F09 003 FF0514",
              # structurally valid, but its index is a domain id the code does not take: no header can be computed for it
              "bad-idx": f" I --- {CTL} --:------ {CTL} 30C9 003 FC07D0"}[what]
        sp = ether._pkt(fr)
        ether.owner[id(sp)] = (0 if what in ("old-echo", "old-reply") else None, "stray-" + what)
        loop.call_later(ts, ether._deliver, sp)

    # phase 1: until every caller is answered (or nothing is left to run)
    loop.run(until=lambda: all(t.done() for t in tasks))
    hung = [c["i"] for c, t in zip(callers, tasks) if not t.done()]
    t_answered = loop.time()
    writes_at_answer = len(ether.writes)
    delivered_at_answer = len(ether.delivered)
    # phase 2: drain whatever is still pending (late packets arrive while idle)
    if cfg.get("late_packets", True) is False:
        ether.cancel_pending()
    loop.run()
    ctxt = proto._context
    obs = {
        "callers": callers,
        "hung": hung,
        "writes": ether.writes,
        "wseq": ether.wseq,
        "writes_at_answer": writes_at_answer,
        "state": type(ctxt._state).__name__,
        "fut_pending": ctxt._fut is not None and not ctxt._fut.done(),
        "cmd_left": ctxt._cmd is not None,
        "loop_excs": _excs(loop),
        "delivered": ether.delivered,
        "delivered_at_answer": delivered_at_answer,
        "t_answered": t_answered,
        "multiplier": ctxt._multiplier,
    }
    try:
        obs["is_sending"] = ("ok", bool(ctxt.is_sending))
    except AssertionError as e:
        obs["is_sending"] = ("assert", str(e)[:80])

    # phase 3 (C09): a probe command to a responsive device must succeed
    if cfg.get("probe") and not (obs["state"] == "Inactive" and cfg.get("disconnect") and not cfg.get("reconnect")):
        ether.cfg = {"deliveries": 2}
        ether.budget = 2
        pcmd = mk_cmd("RQ", 11)
        ether.cmds[pcmd._frame] = "probe"
        res = {}
        env_flag = env.flag

        class _NoLoss:
            symbolic = env.symbolic

            @staticmethod
            def flag(name):
                return False

            @staticmethod
            def real(name, lo, hi):
                return Fraction(1, 100) if not env.symbolic else 0.01

        ether.env = _NoLoss

        async def probe():
            try:
                pkt = await proto.send_cmd(pcmd, qos=QosParams(max_retries=0, timeout=5, wait_for_reply=True))
                res["r"] = ("pkt", ether.owner.get(id(pkt), ("?", "unknown")))
            except BaseException as e:  # noqa: BLE001
                if isinstance(e, KeyboardInterrupt):
                    raise
                res["r"] = ("exc", type(e).__name__, str(e)[-80:])

        pt = loop.create_task(probe())
        loop.run(until=pt)
        loop.run()
        obs["probe"] = res.get("r", ("hung",))
        obs["state_after_probe"] = type(ctxt._state).__name__
        obs["loop_excs"] = _excs(loop)

        # phase 4 (C07/C08): a command to a device that never answers, short caller timeout: whatever
        # the episode left behind (back-off level, counters), it must end by its own timeout
        if obs["probe"][0] == "pkt" and obs["state_after_probe"] == "IsInIdle":
            ether.cfg = {"deliveries": 0}
            ether.budget = 0
            dcmd = mk_cmd("RQ", 10)
            ether.cmds[dcmd._frame] = "dead"
            res2 = {}
            n_before = len(ether.writes)

            async def dead():
                t_a = loop.time()
                try:
                    await proto.send_cmd(dcmd, qos=QosParams(max_retries=3, timeout=Fraction(3, 10) if env.symbolic else 0.3, wait_for_reply=True))
                    res2["r"] = ("pkt",)
                except exc.ProtocolError as e:
                    res2["r"] = ("err", type(e).__name__)
                except BaseException as e:  # noqa: BLE001
                    if isinstance(e, KeyboardInterrupt):
                        raise
                    res2["r"] = ("bad-exc", type(e).__name__)
                res2["dt"] = loop.time() - t_a

            dtk = loop.create_task(dead())
            loop.run(until=dtk)
            loop.run()
            obs["dead"] = (res2.get("r", ("hung",)), res2.get("dt"), len(ether.writes) - n_before)
            obs["state_after_dead"] = type(ctxt._state).__name__
            obs["loop_excs"] = _excs(loop)
    return obs


# ------------------------------------------------------------------------------------------
# oracles


def effective_wait_for_reply(cfg, kind):
    """is a reply *awaited*?  Only an explicit wait_for_reply=True on a gateway whose QoS mode keeps
    it counts (with None the library returns the echo - the statement allows either packet)."""
    if cfg.get("disable_qos", False) is not False:
        return False
    return cfg.get("wait_for_reply", None) is True


def oracle_c07(env, cfg, obs):
    for c in obs["callers"]:
        i = c["i"]
        env.check(i not in obs["hung"], "C07:call-ends")
        if i in obs["hung"]:
            continue
        o = c["outcome"]
        env.check(o[0] in ("pkt", "err"), "C07:result-is-packet-or-protocol-error", info=str(o))
        if o[0] == "pkt":
            owner, kind = o[1]
            # an equal-header packet (a repeat / stale copy of this command's echo or reply) belongs too
            mine = bool((owner == i) or (cfg.get("twins") and owner == 0))  # twins: equal frames, the packets belong to both
            env.check(mine and kind in ("echo", "reply", "stray-old-echo", "stray-old-reply"), "C07:packet-belongs-to-this-command", info=str(o))
            if kind == "echo" and effective_wait_for_reply(cfg, c["kind"]) and c["kind"] in ("RQ", "W"):
                env.check(False, "C07:reply-awaited-but-echo-returned", info=str(o))
        # bounded time: min(timeout, 20) from the call
        limit = env.min_(c["T"], 20)
        if cfg.get("impersonate"):
            # the mandatory impersonation notice goes out first (through the same QoS): the caller's clock
            # starts when it is done, i.e. at the first transmission of the command itself
            ws_i = [t for (t, ci, _) in obs["writes"] if ci == i]
            if ws_i:
                env.check(c["t_done"] - ws_i[0] <= limit + TIME_EPS, "C07:within-timeout")
            else:
                env.check(o[0] == "err", "C07:notice-failed-so-the-call-fails", info=str(o))
            continue
        if cfg.get("latency"):
            limit = limit + LATENCY  # a timer that shares a late loop iteration fires late by at most the modelled latency
        env.check(c["t_done"] - c["t_start"] <= limit + TIME_EPS, "C07:within-timeout")


    if "dead" in obs:
        r, dt_, nw = obs["dead"]
        env.check(r[0] == "err", "C07:later-call-to-a-silent-device-ends-with-a-protocol-error", info=str(r))
        if dt_ is not None:
            env.check(dt_ <= Fraction(3, 10) + TIME_EPS + (LATENCY if cfg.get("latency") else 0), "C07:later-call-within-its-timeout", info=str(dt_))


def oracle_c08(env, cfg, obs):
    if "dead" in obs:
        env.check(obs["dead"][2] <= 4, "C08:no-more-than-budget(later-call)", info=obs["dead"][2])
    limit = 1 + min(cfg.get("max_retries", 3), 3)
    per = {}
    for (t, ci, fr) in obs["writes"]:
        per.setdefault(ci, []).append(t)
    if cfg.get("twins"):
        # two equal frames from two callers: transmissions cannot be attributed to one of them; the
        # budget holds for their sum, and neither may be failed before its own retries/timeout
        ws = per.get(0, [])
        env.check(len(ws) <= limit * len(obs["callers"]), "C08:no-more-than-budget", info=len(ws))
        for c in obs["callers"]:
            o = c["outcome"]
            if c["i"] in obs["hung"] or o is None or o[0] != "err":
                continue
            if o[2] == "caller-timeout":
                env.check(c["t_done"] - c["t_start"] >= env.min_(c["T"], 20), "C08:fewer-only-if-timeout")
            elif o[2] == "max-retries":
                # retries exhausted needs the full back-off sequence of this command: at least 0.5 s per allowed attempt
                env.check(c["t_done"] - c["t_start"] >= 0.5 * limit, "C08:exactly-budget-when-retries-exhausted", info=str(o))
        return
    for c in obs["callers"]:
        i = c["i"]
        if i in obs["hung"]:
            continue
        ws = per.get(i, [])
        env.check(len(ws) <= limit, "C08:no-more-than-budget", info=len(ws))
        o = c["outcome"]
        if cfg.get("impersonate") and not ws:
            continue  # the impersonation notice itself failed: the command was never transmitted
        if o[0] == "err" and o[2] == "max-retries":
            env.check(len(ws) == limit, "C08:exactly-budget-when-retries-exhausted", info=len(ws))
        if o[0] == "err" and len(ws) < limit and o[2] == "caller-timeout":
            # fewer transmissions are only legitimate if the caller's own timeout cut it short
            env.check(c["t_done"] - c["t_start"] >= env.min_(c["T"], 20), "C08:fewer-only-if-timeout")
        # never transmitted again once the caller has been answered (by time, and by event order at the same instant)
        for t in ws:
            env.check(t <= c["t_done"], "C08:no-transmission-after-answer")
        if c.get("seq_done") is not None and not cfg.get("twins"):
            late = [sq for (tt, ci, _), sq in zip(obs["writes"], obs.get("wseq", [])) if ci == i and sq > c["seq_done"]]
            env.check(not late, "C08:no-transmission-after-answer", info="after " + " ".join(str(x).split(":")[0] for x in o[1:3]))
        # waits between successive transmissions never shrink below the base wait
        for a, b in zip(ws, ws[1:]):
            env.check(b - a >= 0.5, "C08:retry-not-before-base-wait")
    # unanswered attempts: exact doubling 0.5, 1, 2, 4 (fresh back-off, nothing delivered)
    if not obs["delivered_at_answer"] and len(obs["callers"]) == 1 and not cfg.get("impersonate"):
        ws = per.get(0, [])
        for j, (a, b) in enumerate(zip(ws, ws[1:])):
            w = 0.5 * 2 ** min(j, 3)
            if cfg.get("latency"):
                # a burst of loop iterations takes up to the modelled latency: the retransmission may go out that late
                env.check(env.all_(b - a >= w, b - a <= w + LATENCY), "C08:wait-doubles-up-to-8x", info=j)
            else:
                env.check(b - a == w, "C08:wait-doubles-up-to-8x", info=j)
    # one in flight: the transmissions of two commands never interleave, and a command is first
    # transmitted only after the previous one's caller was answered
    order = [ci for (_, ci, _) in obs["writes"]]
    seen, closed = [], set()
    for ci in order:
        if ci in closed:
            env.check(False, "C08:one-in-flight(interleaved)")
            break
        if seen and seen[-1] != ci:
            closed.add(seen[-1])
        if not seen or seen[-1] != ci:
            seen.append(ci)
    by_i = {c["i"]: c for c in obs["callers"]}
    for a, b in zip(seen, seen[1:]):
        if a in by_i and b in by_i and a not in obs["hung"]:
            env.check(per[b][0] >= by_i[a]["t_done"], "C08:next-starts-after-previous-answered")
    # priority, then call order (all callers enqueue at the same instant in these queries)
    if cfg.get("check_order"):
        started = [i for i in seen if i in by_i]
        want = sorted(started, key=lambda i: (int(by_i[i]["prio"]), i))
        env.check(started == want, "C08:priority-then-fifo", info=str((started, [int(by_i[i]["prio"]) for i in started])))


def oracle_c09(env, cfg, obs):
    env.check(not obs["hung"], "C09:every-caller-answered", info=str(obs["hung"]))
    env.check(obs["state"] in ("IsInIdle", "Inactive"), "C09:idle-or-inactive-after-quiescence", info=obs["state"])
    env.check(obs["is_sending"][0] == "ok", "C09:internal-consistency-check", info=str(obs["is_sending"]))
    env.check(not obs["fut_pending"] and not obs["cmd_left"], "C09:nothing-in-flight")
    env.check(not obs["loop_excs"], "C09:no-unhandled-exception-in-loop", info=str(obs["loop_excs"][:2]))
    for c in obs["callers"]:
        if c["outcome"] is not None:
            env.check(c["outcome"][0] != "bad-exc", "C09:no-internal-error-escapes", info=str(c["outcome"]))
    if "probe" in obs:
        p = obs["probe"]
        env.check(p[0] == "pkt" and p[1][0] == "probe" and p[1][1] in ("echo", "reply"), "C09:probe-succeeds", info=str(p))
        env.check(obs["state_after_probe"] == "IsInIdle", "C09:idle-after-probe", info=obs["state_after_probe"])
    if "dead" in obs:
        env.check(obs["state_after_dead"] == "IsInIdle", "C09:idle-after-a-failed-send", info=obs["state_after_dead"])


ORACLES = {"C07": oracle_c07, "C08": oracle_c08, "C09": oracle_c09}


def summarize(obs):
    outs = tuple((c["outcome"][0], c["outcome"][1] if c["outcome"][0] == "pkt" else c["outcome"][1]) if c["outcome"] else "hung" for c in obs["callers"])
    return (len(obs["writes"]), outs, obs["state"], len(obs["loop_excs"]), obs.get("probe", ("-",))[0])


def scenario(prop, cfg):
    def fn(ctx):
        env = SymEnv(ctx)
        obs = run_episode(env, cfg)
        ORACLES[prop](env, cfg, obs)
        return summarize(obs)

    return fn


def replay_episode(prop, cfg, cex, label):
    env = ReplayEnv(cex)
    obs = run_episode(env, cfg)
    ORACLES[prop](env, cfg, obs)
    failed = [l for l, _ in env.failed]
    if label not in failed and any(isinstance(v, dict) and k.startswith("T") for k, v in cex.items()):
        # the caller's timeout was handed over as the exact rational the solver chose; code that uses the timeout in
        # datetime arithmetic only takes a float: replay once more the way a user would pass it
        env2 = ReplayEnv(cex)
        env2.float_timeouts = True
        obs2 = run_episode(env2, cfg)
        ORACLES[prop](env2, cfg, obs2)
        if label in [l for l, _ in env2.failed]:
            env, obs, failed = env2, obs2, [l for l, _ in env2.failed]
    desc = {
        "writes": [(float(t), ci) for t, ci, _ in obs["writes"]],
        "callers": [(c["i"], c["outcome"], float(c["t_done"]) if c["t_done"] is not None else None) for c in obs["callers"]],
        "state": obs["state"], "loop_excs": obs["loop_excs"][:2], "probe": obs.get("probe"),
    }
    sites = list(obs["loop_excs"][:1]) if ("exception" in label or "internal" in label or "consistency" in label) else []
    return {"reproduced": label in failed, "observed": f"failed={sorted(set(failed))} {desc}"[:900], "signature": None, "failed": failed, "infos": [str(i)[:100] for l, i in env.failed if l == label][:2], "sites": sites}


# ------------------------------------------------------------------------------------------
# query matrix shared by C07 / C08 / C09


def configs(prop, tier):
    """[(name, cfg, budget)] - the schedule / fault alphabet per tier"""
    thorough = tier == "thorough"
    out = []
    k = 3 if thorough else 2
    # 1 command x retries x wait_for_reply x gateway QoS mode
    for r in (0, 1, 3, 5):
        for w in (False, True, None):
            for dq in (False, None, True):
                if not thorough and dq is not False and (r not in (1, 3) or w is False):
                    continue  # quick: the non-default QoS modes only on a subset
                kk = k if r <= 3 else k
                out.append((f"one[r={r},w={w},dq={dq},k={kk}]", dict(max_retries=r, wait_for_reply=w, disable_qos=dq, deliveries=kk, probe=True)))
    # other verbs: W (reply is an I), I (no reply is ever due)
    for kind in ("W", "I"):
        for w in (True, None):
            out.append((f"one[{kind},r=3,w={w}]", dict(kinds=[kind], max_retries=3, wait_for_reply=w, deliveries=k, probe=True)))
    # the caller's timeout as a solver real (incl. exact coincidence with every timer)
    for w in (True, False):
        out.append((f"one[r=3,w={w},T=sym]", dict(max_retries=3, wait_for_reply=w, timeout="sym", deliveries=2, probe=True)))
    # duplicates (RF devices repeat frames) and a near-miss foreign reply
    out.append(("one[r=1,dups]", dict(max_retries=1, wait_for_reply=True, duplicates=True, deliveries=3, probe=True)))
    out.append(("one[r=1,foreign]", dict(max_retries=1, wait_for_reply=True, foreign=True, deliveries=3, probe=True)))
    # a stale / unrelated packet at any time in any state
    out.append(("one[r=1,stray]", dict(max_retries=1, wait_for_reply=True, stray=8, deliveries=2, probe=True)))
    # write failure, disconnect (+ reconnect) at any time
    out.append(("one[r=1,wfail]", dict(max_retries=1, wait_for_reply=True, write_failures=1, deliveries=2, probe=True)))
    out.append(("one[r=1,disconnect]", dict(max_retries=1, wait_for_reply=True, disconnect=4, deliveries=2, probe=True)))
    out.append(("one[r=1,disconnect,reconnect]", dict(max_retries=1, wait_for_reply=True, disconnect=4, reconnect=True, deliveries=2, probe=True)))
    # concurrent callers: priorities symbolic, all enqueued at the same instant
    out.append(("two[r=1,prio=sym]", dict(ncmd=2, max_retries=1, wait_for_reply=True, priorities="sym", check_order=True, deliveries=2, probe=True)))
    out.append(("two[r=0,w=False,stagger]", dict(ncmd=2, max_retries=0, wait_for_reply=False, stagger=2, deliveries=2, probe=True)))
    out.append(("three[r=0,prio=sym]", dict(ncmd=3, max_retries=0, wait_for_reply=False, priorities="sym", check_order=True, deliveries=2 if not thorough else 3, probe=True)))
    # a command sent in another device's name: the impersonation notice (a puzzle packet) goes out first
    out.append(("one[impersonate,r=1]", dict(max_retries=1, wait_for_reply=True, impersonate=True, deliveries=3, probe=True)))
    # a queued caller timing out while another command is in flight; then the probes
    out.append(("two[r=1,T=sym]", dict(ncmd=2, max_retries=1, wait_for_reply=True, timeout=[20.0, "sym"], deliveries=2, probe=True)))
    # two callers, the transport goes away while one is still queued
    out.append(("two[r=1,disconnect]", dict(ncmd=2, max_retries=1, wait_for_reply=True, disconnect=3, deliveries=2, probe=True)))
    # two callers sending the same frame (two distinct Command objects), the second with its own timeout
    out.append(("twins[r=3,T=sym]", dict(ncmd=2, twins=True, max_retries=3, wait_for_reply=False, timeout=[20.0, "sym"], deliveries=1, probe=True)))
    # same priority, different caller timeouts: still first come first served
    out.append(("three[r=0,T=sym,fifo]", dict(ncmd=3, max_retries=0, wait_for_reply=False, timeout=[20.0, "sym", "sym"], Tmax=3, check_order=True, deliveries=1, probe=True)))
    # loop latency: timers due within 10 ms of one another may run in the same loop iteration, i.e. before
    # the callbacks the first one deferred with call_soon (coincident echo timer / caller timeout / disconnect)
    out.append(("lat[r=0,T=sym]", dict(max_retries=0, wait_for_reply=True, timeout="sym", deliveries=1, latency=True, probe=True)))
    out.append(("lat[r=1,w=True]", dict(max_retries=1, wait_for_reply=True, deliveries=2, latency=True, probe=True)))
    out.append(("lat[r=1,disconnect,T=sym]", dict(max_retries=1, wait_for_reply=True, timeout="sym", disconnect=2, deliveries=1, latency=True, probe=True)))
    # a second caller arriving around the instant the first caller's own timeout fires (its command still waiting)
    out.append(("lat[two,r=0,T0=sym,stagger]", dict(ncmd=2, max_retries=0, wait_for_reply=True, timeout=["sym", 20.0], Tmax=0.4, stagger=1, near_T0=True, deliveries=1, latency=True, probe=True)))
    if thorough:
        out.append(("two[r=1,T=sym,both]", dict(ncmd=2, max_retries=1, wait_for_reply=True, timeout="sym", deliveries=2, probe=True)))
        out.append(("lat[r=3,w=True,T=sym]", dict(max_retries=3, wait_for_reply=True, timeout="sym", deliveries=2, latency=True, probe=True)))
        out.append(("lat[two,r=1,T=sym]", dict(ncmd=2, max_retries=1, wait_for_reply=True, timeout=[20.0, "sym"], deliveries=2, latency=True, probe=True)))
        out.append(("two[r=3,prio=sym]", dict(ncmd=2, max_retries=3, wait_for_reply=True, priorities="sym", check_order=True, deliveries=2, probe=True)))
        out.append(("two[r=1,disconnect]", dict(ncmd=2, max_retries=1, wait_for_reply=True, disconnect=4, reconnect=True, deliveries=2, probe=True)))
        out.append(("one[r=3,wfail2]", dict(max_retries=3, wait_for_reply=True, write_failures=2, deliveries=2, probe=True)))
    return out


def build_queries(prop, tier, seed=0):
    import os
    from symx.runner import Query

    thorough = tier == "thorough"
    qs = []
    for name, cfg in configs(prop, tier):
        qs.append(Query(name, scenario(prop, cfg), {"cfg": cfg}, group=name.split("[")[0], max_secs=1500 if thorough else 280, max_paths=400_000 if thorough else 60_000,
                        split_depth=10, weight=cfg.get("deliveries", 2) * cfg.get("ncmd", 1) * (cfg.get("max_retries", 3) + 1)))
    # canary: the same scenario with a deliberately wrong oracle
    def canary(ctx):
        env = SymEnv(ctx)
        obs = run_episode(env, dict(max_retries=1, wait_for_reply=True, deliveries=2))
        env.check(len(obs["writes"]) <= 1, f"{prop}:canary")  # false whenever a retry happens
        return "canary"

    qs.append(Query(f"canary:{prop}", canary, canary=True))
    only = os.environ.get("FSM_ONLY")
    if only:
        qs = [q for q in qs if only in q.name]
    return qs


def replay_item(prop, item):
    from checks import common

    common.plain_imports()
    cfg = item["params"]["cfg"]
    r = replay_episode(prop, cfg, item["cex"], item["label"])
    tag = "reconnect" if cfg.get("reconnect") else item["group"]
    r["signature"] = f"{item['label']} [{tag}]"
    if tag != "reconnect" and r.get("sites"):
        r["signature"] += " " + r["sites"][0]
    if tag == "lat" and item["label"] == "C08:no-transmission-after-answer":
        # which answer the caller had been given when the frame went out tells one race from another
        r["signature"] += " " + next((i for i in r.get("infos", []) if i.startswith("after ")), "by time")
    return r


FUNCTIONS = [
    "ramses_tx.protocol:PortProtocol.send_cmd", "ramses_tx.protocol:PortProtocol._send_cmd", "ramses_tx.protocol:PortProtocol.pkt_received",
    "ramses_tx.protocol:PortProtocol.connection_made", "ramses_tx.protocol:PortProtocol.connection_lost", "ramses_tx.protocol:_BaseProtocol._send_frame",
    "ramses_tx.protocol_fsm:ProtocolContext.send_cmd", "ramses_tx.protocol_fsm:ProtocolContext.set_state", "ramses_tx.protocol_fsm:ProtocolContext._check_buffer_for_cmd",
    "ramses_tx.protocol_fsm:ProtocolContext._send_cmd", "ramses_tx.protocol_fsm:ProtocolContext.is_sending",
    "ramses_tx.protocol_fsm:Inactive.pkt_rcvd", "ramses_tx.protocol_fsm:IsInIdle.cmd_sent", "ramses_tx.protocol_fsm:WantEcho.pkt_rcvd", "ramses_tx.protocol_fsm:WantRply.pkt_rcvd",
    "ramses_tx.protocol_fsm:ProtocolStateBase.connection_lost",
]
STUBS = [
    "transport/radio/devices: checks.fsm.Ether - write_frame records the write and schedules the echo and the device's reply at solver-chosen real times or drops them on solver Booleans",
    "event loop: symx.vloop.VLoop (virtual time; real asyncio Future/Task/wait_for/sleep run on it)",
    "dt.now() in protocol_fsm (queue tie-break): strictly increasing stub",
]
ASSUMPTIONS = [
    "per episode at most k packets are not lost (delivery budget k: 2 quick / 3 thorough); which ones and when is free",
    "arrival delays are reals in [0, 10] s after the transmission that caused them",
    "two timers due at exactly the same instant run in creation order (asyncio's heap gives no stronger guarantee)",
    "loop latency (lat[...] queries): a timer due within 10 ms after the one being run may - solver's choice - run in the same loop iteration, before the callbacks the first deferred with call_soon",
]
OUTSIDE = ["more than 3 concurrent callers / the 32-slot buffer overflow", "real threads (the threading.Lock is single-threaded here)", "dt.now() ties within one microsecond"]
BOUNDS = {"quick": "1 command x max_retries {0,1,3,5} x wait_for_reply {F,T,None} x QoS mode; k=2 deliveries; 2-3 concurrent callers; one fault per episode",
          "thorough": "k=3 deliveries, symbolic caller timeouts with 2 callers, 2 write failures, disconnect with 2 callers"}
