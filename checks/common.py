"""Shared set-up for the check modules."""
from __future__ import annotations

import logging
import os
import sys


def install(dt_modules=("ramses_tx.helpers", "ramses_tx.parsers"), struct_modules=(), td_modules=("ramses_tx.parsers",), extra=None):
    """Activate the instrumenting importer for ramses_tx / ramses_rf (from SYMX_SRC_ROOT, default
    /repo/src) and register per-module substitutions.  Logging is disabled (handlers off; message
    arguments are still evaluated because the code builds them eagerly)."""
    from symx import instrument, stubs

    for m in dt_modules:
        instrument.EXTRA_GLOBALS.setdefault(m + ":post", {}).update({"dt": stubs.SxDateTime})
    for m in td_modules:
        instrument.EXTRA_GLOBALS.setdefault(m + ":post", {}).update({"td": stubs.SxTimeDelta})
    for m in struct_modules:
        instrument.EXTRA_GLOBALS.setdefault(m + ":post", {}).update({"struct": stubs.SxStruct})
    for m, d in (extra or {}).items():
        instrument.EXTRA_GLOBALS.setdefault(m, {}).update(d)
    instrument.install(os.environ.get("SYMX_SRC_ROOT"))
    logging.disable(logging.CRITICAL)
    import warnings

    warnings.filterwarnings("ignore", category=RuntimeWarning)  # 'coroutine was never awaited' on abandoned paths


def plain_imports():
    """For replay: make sure the uninstrumented package from the same root is first on sys.path."""
    root = os.environ.get("SYMX_SRC_ROOT", "/repo/src")
    if root not in sys.path:
        sys.path.insert(0, root)
    logging.disable(logging.CRITICAL)
