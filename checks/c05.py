"""C05 - decoded payloads are JSON-able, deterministic, element-wise and index-consistent.

The real Packet + Message + per-code parser run on frame lines with symbolic payload parts (whole
short payloads with symbolic device-type digits, every 2-byte window of payloads taken from the
repository's packet logs, fully symbolic arrays of the array-capable codes).  Whenever a path ends
in a decoded message the solver must show, for every input of that path:

* the payload is built from dict/list/tuple/str/int/float/bool/None only;
* decoding the same frame again - after unrelated decodes that go through the same lru_caches and
  memoised attributes - gives a cell-for-cell equal payload;
* a zone/domain/dhw/ufh index the payload reports equals the characters at the index position of
  the frame (independent position table: payload[:2] of the frame or of the array element);
* an m-element array decodes to m entries, entry i being what element i decodes to as a frame of
  its own;
* every ratio-named value lies in [0, 1] and every temperature-named value inside the 16-bit wire
  range."""
from __future__ import annotations

import os

from checks import c01
from checks import common
from checks import decode as D
from symx.runner import Query

PROPERTY = "C05"
LEVEL = "other"
EXPLANATION = __doc__
FUNCTIONS = [f for f in c01.FUNCTIONS if "transport" not in f and "protocol" not in f] + [
    "ramses_tx.parsers:parser_30c9", "ramses_tx.parsers:parser_2309", "ramses_tx.parsers:parser_000a", "ramses_tx.parsers:parser_0009", "ramses_tx.parsers:parser_22c9",
    "ramses_tx.parsers:parser_3150", "ramses_tx.parsers:parser_2249", "ramses_tx.parsers:parser_0418", "ramses_tx.parsers:parser_31da", "ramses_tx.parsers:parser_3220",
    "ramses_tx.helpers:hex_to_temp", "ramses_tx.helpers:hex_to_percent",
]
BOUNDS = {
    "quick": {"full payloads": "every verb/code of CODES_SCHEMA, shortest admissible length <= 4 bytes, 2 address shapes, symbolic device-type digits", "windows": "1 logged base payload per verb/code pair, every 2-byte window",
              "arrays": "7 array codes: m <= 2 elements all symbolic (3-byte elements), and m in {2, 3} with one symbolic element at each position among logged neighbour elements"},
    "thorough": {"full payloads": "up to 3 admissible lengths <= 6 bytes, 4 address shapes", "windows": "up to 4 logged base payloads per pair, 2- and 3-byte windows", "arrays": "m <= 3 all symbolic (3-byte elements; m <= 2 others), one symbolic element at each position for m in {2, 3, 4, 8}"},
}
OUTSIDE = ["payload bytes outside the symbolic window keep their logged value", "3220 OpenTherm values beyond type/JSON-ability and range", "dependence on the wall clock: no decode path reads it (checked by grep, not by the solver)",
           "indexes that the code derives from a zone type / role rather than carries (0005, 000C, 0404 'HW', 0418, 3220, 1FC9)"]
STUBS = c01.STUBS[-1:]
ASSUMPTIONS = ["ratio-named keys: " + ", ".join(sorted(D.RATIO_KEYS)), "temperature-named keys: temperature, setpoint, min_temp, max_temp, *_temp"]
MIN_CONCLUSIVE_FRACTION = 0.7
OPTIONAL_GROUPS = ("fullx",)


def setup(tier):
    c01.setup(tier)


def queries(tier, seed):
    thorough = tier == "thorough"
    qs = c01.decode_queries("C05", tier, seed)
    for code in D.ARRAY_ELEM:
        n = D.ARRAY_ELEM[code]
        # every element symbolic (small arrays of short elements) ...
        full_ms = ((1, 2) if n <= 3 else (1,)) if not thorough else ((1, 2, 3) if n <= 3 else (1, 2))
        for m in full_ms:
            qs.append(Query(f"array[{code}|m={m}|all]", lambda c, a=(code, m): D.h_array(c, *a), {"h": "array", "code": code, "m": m, "sym_at": None}, group=f"array:{code}", max_secs=900 if thorough else 150, max_paths=200_000, weight=10 + n * m,
                            split_depth=(10 if n * m >= 6 else None)))
        # ... the same multi-element payload addressed to another device (not the announce-to-self form): refused, or still a list
        qs.append(Query(f"array[{code}|m=2|anysrc]", lambda c, a=(code, 2, 0, "anysrc"): D.h_array(c, *a), {"h": "array", "code": code, "m": 2, "sym_at": 0, "shape": "anysrc"}, group=f"array:{code}", max_secs=150, max_paths=200_000, weight=10 + n,
                        mode=("bv" if code in ("3150",) and False else "int")))
        qs.append(Query(f"array[{code}|m=2|to]", lambda c, a=(code, 2, 0, "to"): D.h_array(c, *a), {"h": "array", "code": code, "m": 2, "sym_at": 0, "shape": "to"}, group=f"array:{code}", max_secs=150, max_paths=200_000, weight=10 + n,
                        split_depth=(10 if n >= 6 else None)))
        # ... and one symbolic element at each position among logged neighbours
        for m in ((2, 3) if not thorough else (2, 3, 4, 8)):
            for i in range(m):
                qs.append(Query(f"array[{code}|m={m}|@{i}]", lambda c, a=(code, m, i): D.h_array(c, *a), {"h": "array", "code": code, "m": m, "sym_at": i}, group=f"array:{code}", max_secs=900 if thorough else 150, max_paths=200_000, weight=10 + n,
                                split_depth=(10 if n >= 6 else None)))

    def canary(c):
        import symx

        w = symx.sym_hex(c, "w", 4)
        line = "045  I --- 01:145038 --:------ 01:145038 30C9 003 00" + w
        out, msg = D.decode_c01(c, line)
        if msg is not None and msg.payload.get("temperature") is not None:
            c.check(msg.payload["temperature"] <= 100, "canary")  # false: up to 327.67

    qs.append(Query("canary:range", canary, canary=True))
    only = os.environ.get("C05_ONLY")
    if only:
        qs = [q for q in qs if only in q.name or q.canary]
    return qs


def replay(item):
    common.plain_imports()
    return D.replay_decode(item)
