"""C18 - schedule transfers end cleanly under faults and never return a mixed schedule.

The real ``Schedule.get_schedule/_get_schedule/_is_dated/set_schedule/_handle_msg/_update_payload_set``
and ``ScheduleSync._obtain_lock/_release_lock/_schedule_version`` (bound to a minimal TCS object) run on
the virtual-time loop with ``ramses_rf.system.heat.dt`` = the virtual clock, against a scripted
controller holding two concrete schedule versions (real zlib, 2-3 fragments each).  Solver variables:
per exchange whether the controller answers or the send fails, how long it takes (selector), at which
exchange the controller's schedule changes (version bump), an overheard fragment (this zone's or another
zone's, old or new version) delivered at a chosen step, and the caller's overall timeout (a real).  Per
path: the call ends; a returned schedule is version A's or version B's - never a mixture - and agrees
with the change counter the transfer recorded; otherwise it raised; afterwards the system-wide
transfer lock is free, a follow-up transfer for another zone completes, and so does a new one for the same zone.

Most decisions here are free Booleans/selectors; the solver's part is the timeout-versus-progress zones
and the bookkeeping/replay."""
from __future__ import annotations

import os
import threading
import types
from fractions import Fraction

from checks import common
from symx.runner import Query

PROPERTY = "C18"
LEVEL = "other"
EXPLANATION = __doc__
FUNCTIONS = ["ramses_rf.system.schedule:Schedule.get_schedule", "ramses_rf.system.schedule:Schedule._get_schedule", "ramses_rf.system.schedule:Schedule._is_dated", "ramses_rf.system.schedule:Schedule.set_schedule",
             "ramses_rf.system.schedule:Schedule._handle_msg", "ramses_rf.system.schedule:Schedule._update_payload_set", "ramses_rf.system.schedule:Schedule._proc_payload_set",
             "ramses_rf.system.heat:ScheduleSync._obtain_lock", "ramses_rf.system.heat:ScheduleSync._release_lock", "ramses_rf.system.heat:ScheduleSync._schedule_version"]
BOUNDS = {"quick": {"exchanges": "<= 8 per transfer; each answers or fails (<= 2 failures), duration by selector from {0.01, 1, 16} s", "controller": "two schedule versions of 2-3 fragments, one version bump at any exchange",
                    "caller timeout": "a solver real in (0, 60] s", "zones": "one transfer + a follow-up on another zone; one overheard fragment"},
          "thorough": {"exchanges": "<= 10, <= 3 failures"}}
OUTSIDE = ["three concurrent transfers", "the gateway's send path itself (C07-C09): an exchange is answered or fails as a whole"]
STUBS = ["gateway.async_send_cmd -> scripted controller (real Command in, real RP Packet out, or ProtocolSendFailed)", "zone / TCS -> minimal objects with the real ScheduleSync methods bound", "heat.dt -> virtual clock"]
ASSUMPTIONS = ["a failed exchange surfaces as ProtocolSendFailed after a selector-chosen time (what PortProtocol.send_cmd raises, C07)"]
MIN_CONCLUSIVE_FRACTION = 0.7
CTL = "01:145038"
EPOCH = None


def setup(tier):
    common.install(td_modules=("ramses_tx.parsers", "ramses_rf.system.heat"))
    import ramses_rf.system.heat  # noqa: F401
    import ramses_rf.system.schedule  # noqa: F401


def _sched(seed, idx):
    """a concrete, valid weekly zone schedule (2-3 fragments once compressed)"""
    days = []
    for d in range(7):
        sps = [{"time_of_day": f"{6 + (seed + d) % 3:02d}:{(5 * seed) % 60:02d}", "heat_setpoint": 18.0 + seed + (d % 2) * 0.5},
               {"time_of_day": f"{21 + (seed * d) % 2:02d}:30", "heat_setpoint": 15.0 + seed * 0.5},
               {"time_of_day": "23:00", "heat_setpoint": 12.5 + (d + seed) % 4}]
        days.append({"day_of_week": d, "switchpoints": sps})
    return {"zone_idx": idx, "schedule": days}


class Env:
    def __init__(self, ctx=None, cex=None):
        self.ctx, self.cex, self.symbolic, self.failed = ctx, cex, ctx is not None, []

    def flag(self, name):
        if self.symbolic:
            import symx

            return symx.flag(self.ctx, name)
        return bool(self.cex.get(name, False))

    def choice(self, name, options):
        if self.symbolic:
            import symx

            return symx.choice(self.ctx, name, options)
        v = self.cex.get(name)
        return next((o for o in options if o == v or str(o) == str(v)), options[0])

    def real(self, name, lo, hi):
        if self.symbolic:
            import symx

            return symx.sym_real(self.ctx, name, lo, hi)
        v = self.cex.get(name, lo)
        return Fraction(v["num"], v["den"]) if isinstance(v, dict) else Fraction(v)

    def check(self, cond, label, info=None):
        if self.symbolic:
            return self.ctx.check(cond, label, info)
        if not cond:
            self.failed.append((label, info))
        return bool(cond)


def _loop(env):
    from symx.vloop import VLoop

    if env.symbolic:
        return VLoop(0)

    class FracLoop(VLoop):
        def call_later(self, delay, cb, *args, context=None):
            return self.call_at(self._now + Fraction(delay), cb, *args, context=context)

        def call_at(self, when, cb, *args, context=None):
            return VLoop.call_at(self, Fraction(when), cb, *args, context=context)

    return FracLoop(Fraction(0))


def run_transfer(env, cfg):
    import asyncio
    from datetime import datetime as _dt, timedelta as _td

    from ramses_rf.system import heat as H
    from ramses_rf.system import schedule as S
    from ramses_tx import exceptions as exc
    from ramses_tx.message import Message
    from ramses_tx.packet import Packet
    from symx.vloop import running

    loop = _loop(env)
    epoch = _dt(2023, 1, 1, 12, 0, 0)

    def now():
        t = loop.time()
        if env.symbolic:
            from symx.stubs import SymInstant
            from symx.values import SymReal

            return SymInstant(epoch, t if isinstance(t, SymReal) else SymReal.const(t))
        return epoch + _td(seconds=float(t))

    class VClock:
        @staticmethod
        def now():
            return now()

    H.dt = VClock
    # ---- the controller
    ver = {"A": _sched(1, "01"), "B": _sched(5, "01"), "other": _sched(3, "02")}
    frags = {k: S.full_sched_to_fragz(v) for k, v in ver.items()}
    counter = {"A": 0x0105, "B": 0x0106}
    state = {"cur": "A", "n": 0, "fails": 0}
    bump_at = env.choice("bump_at", [None] + list(range(cfg["max_x"]))) if cfg.get("bump") else None
    log = []

    hooks = {}

    class Gwy:
        _loop = loop

        async def async_send_cmd(self, cmd, **kw):
            i = state["n"]
            state["n"] += 1
            if i >= cfg["max_x"]:
                raise exc.ProtocolSendFailed("stub: exchange budget exhausted")
            if bump_at == i:
                state["cur"] = "B"
            dur = env.choice(f"dur{i}", [Fraction(1, 100), 1, 16])
            fail = state["fails"] < cfg["max_fail"] and env.flag(f"fail{i}")
            await asyncio.sleep(dur)
            if hooks.get("overhear_at") == i:
                hooks["deliver"]()  # a fragment overheard while this exchange is in flight
            log.append((i, str(cmd.code), "fail" if fail else state["cur"]))
            if fail:
                state["fails"] += 1
                raise exc.ProtocolSendFailed("stub: no reply")
            code, pl = str(cmd.code), cmd.payload
            if code == "0006":
                body = f"0005{counter[state['cur']]:04X}"
            else:
                zone = pl[:2]
                fr = frags[state["cur"]] if zone == "01" else frags["other"]
                num = int(pl[10:12], 16)
                if num > len(fr):
                    raise exc.ProtocolSendFailed("stub: no such fragment")
                f = fr[num - 1]
                body = f"{zone}200008{len(f) // 2:02X}{num:02X}{len(fr):02X}{f}"
            line = f"045 RP --- {CTL} 18:006402 --:------ {code} {len(body) // 2:03d} {body}"
            return Packet.from_port(now(), line)

    gwy = Gwy()
    tcs = types.SimpleNamespace(id=CTL, ctl=types.SimpleNamespace(id=CTL), _gwy=gwy, zone_lock=threading.Lock(), zone_lock_idx=None, _msg_0006=None)
    for name in ("_obtain_lock", "_release_lock", "_schedule_version"):
        setattr(tcs, name, types.MethodType(getattr(H.ScheduleSync, name), tcs))

    def mk_zone(idx):
        z = types.SimpleNamespace(id=f"{CTL}_{idx}", idx=idx, ctl=tcs.ctl, tcs=tcs, _gwy=gwy)
        return S.Schedule(z)

    sch = mk_zone("01")
    T = env.real("T", Fraction(1, 100), 60)
    res = {}
    # an overheard fragment, delivered between two exchanges
    if cfg.get("overhear"):
        at = env.choice("overhear_at", list(range(cfg["max_x"])))
        what = env.choice("overhear_what", ["mine-A", "mine-B", "other"])

        def deliver():
            zone, key = ("01", what[-1]) if what != "other" else ("02", "other")
            fr = frags[key]
            f = fr[0]
            body = f"{zone}200008{len(f) // 2:02X}01{len(fr):02X}{f}"
            m = Message(Packet.from_port(now(), f"045 RP --- {CTL} 18:006402 --:------ 0404 {len(body) // 2:03d} {body}"))
            sch._handle_msg(m)

        hooks["overhear_at"], hooks["deliver"] = at, deliver

    async def main():
        if cfg["op"] == "get":
            coro = sch.get_schedule(force_io=cfg.get("force_io", False), timeout=T if env.symbolic else float(T))
        else:
            coro = sch.set_schedule(ver["B"]["schedule"])
        t0 = loop.time()
        try:
            res["r"] = ("ok", await coro)
        except (TimeoutError, exc.RamsesException, TypeError) as e:
            res["r"] = ("exc", type(e).__name__)
        except Exception as e:  # noqa: BLE001
            res["r"] = ("bad-exc", f"{type(e).__name__}: {e}"[:80])
        res["dt"] = loop.time() - t0

    with running(loop):
        task = loop.create_task(main())
    loop.run(until=task, horizon=2000)
    obs = {"cached": sch.schedule, "done": task.done(), "res": res.get("r"), "dt": res.get("dt"), "lock": tcs.zone_lock_idx, "log": log, "T": T, "sched_ver": sch._sched_ver, "ver": ver, "counter": counter}
    # follow-up: another zone's transfer against a now well-behaved controller
    if task.done():
        state["n"], state["fails"], cfg2 = 0, 10**6, dict(cfg, max_x=50)
        cfg["max_x"] = 50
        other = mk_zone("02")
        res2 = {}
        obs_h = loop.time() + 10

        async def follow():
            try:
                res2["r"] = ("ok", await other.get_schedule(force_io=True, timeout=3))
            except Exception as e:  # noqa: BLE001
                res2["r"] = ("exc", f"{type(e).__name__}: {e}"[:80])

        env_choice, env_flag = env.choice, env.flag
        env.choice = lambda name, options: options[0]
        env.flag = lambda name: False
        try:
            with running(loop):
                t2 = loop.create_task(follow())
            loop.run(until=t2, horizon=obs_h)
        finally:
            env.choice, env.flag = env_choice, env_flag
        obs["follow"] = res2.get("r", ("hung",))
        obs["lock_after_follow"] = tcs.zone_lock_idx
        # ... and the same zone again: whatever became of the first transfer (answered, failed, abandoned), a new
        # one against the now well-behaved controller does its own I/O and returns the controller's current schedule
        if cfg["op"] == "get":
            res3, n_before = {}, state["n"]

            async def again():
                try:
                    res3["r"] = ("ok", await sch.get_schedule(force_io=True, timeout=30))
                except Exception as e:  # noqa: BLE001
                    res3["r"] = ("exc", f"{type(e).__name__}: {e}"[:80])

            env.choice = lambda name, options: options[0]
            env.flag = lambda name: False
            try:
                with running(loop):
                    t3 = loop.create_task(again())
                loop.run(until=t3, horizon=loop.time() + 60)
            finally:
                env.choice, env.flag = env_choice, env_flag
            obs["again"] = res3.get("r", ("hung",))
            obs["again_io"] = state["n"] - n_before
            obs["cur"] = state["cur"]
    return obs


def oracle(env, cfg, obs):
    env.check(obs["done"], "C18:the-transfer-ends")
    if not obs["done"]:
        return
    r = obs["res"]
    env.check(r[0] in ("ok", "exc"), "C18:result-is-a-schedule-or-an-error", info=str(r)[:100])
    if r[0] == "ok" and cfg["op"] == "get":
        got = r[1]
        is_a, is_b = got == obs["ver"]["A"]["schedule"], got == obs["ver"]["B"]["schedule"]
        env.check(got is None or is_a or is_b, "C18:never-a-mixed-schedule", info="neither version A nor B")
        if is_a or is_b:
            want = obs["counter"]["A" if is_a else "B"]
            # the recorded version is that of a counter read during the transfer: never newer than the schedule returned
            env.check(obs["sched_ver"] <= want or is_b, "C18:schedule-agrees-with-the-change-counter", info=f"ver={obs['sched_ver']:#x}")
    if cfg["op"] == "get":
        env.check(obs["dt"] <= obs["T"] + Fraction(1, 100), "C18:ends-within-the-caller's-timeout", info=str(obs["dt"]))
    if cfg["op"] == "set" and r[0] == "exc":
        # a write that failed must not leave the never-stored schedule behind as this zone's schedule
        env.check(obs["cached"] != obs["ver"]["B"]["schedule"], "C18:a-failed-write-leaves-no-phantom-schedule")
    env.check(obs["lock"] is None, "C18:transfer-lock-released", info=str(obs["lock"]))
    f = obs.get("follow")
    env.check(f is not None and f[0] == "ok" and f[1] == obs["ver"]["other"]["schedule"], "C18:a-later-transfer-for-another-zone-completes", info=str(f)[:100] if f and f[0] != "ok" else None)
    a = obs.get("again")
    if a is not None:
        env.check(a[0] == "ok" and a[1] == obs["ver"][obs["cur"]]["schedule"] and obs["again_io"] >= 1, "C18:a-later-transfer-for-the-same-zone-completes",
                  info=(str(a)[:100] if a[0] != "ok" else f"io={obs['again_io']} schedule is the current one: {a[1] == obs['ver'][obs['cur']]['schedule']}"))


def scenario(cfg):
    def fn(ctx):
        env = Env(ctx=ctx)
        obs = run_transfer(env, dict(cfg))
        oracle(env, cfg, obs)
        return (obs["res"][0] if obs["res"] else "hung", len(obs["log"]), obs["lock"])

    return fn


def configs(tier):
    thorough = tier == "thorough"
    mx = 10 if thorough else 8
    mf = 3 if thorough else 2
    return [
        ("get[faults]", dict(op="get", max_x=mx, max_fail=mf)),
        ("get[faults,force_io]", dict(op="get", force_io=True, max_x=mx, max_fail=mf)),
        ("get[bump]", dict(op="get", max_x=mx, max_fail=0, bump=True)),
        ("get[bump,fault]", dict(op="get", max_x=mx, max_fail=1, bump=True)),
        ("get[overhear]", dict(op="get", max_x=mx, max_fail=0, overhear=True)),
        ("set[faults]", dict(op="set", max_x=mx, max_fail=mf)),
    ]


def queries(tier, seed):
    qs = [Query(name, scenario(cfg), {"cfg": cfg}, group=name.split("[")[0], max_secs=1200 if tier == "thorough" else 280, max_paths=200_000, split_depth=6, weight=10) for name, cfg in configs(tier)]

    def canary(c):
        env = Env(ctx=c)
        obs = run_transfer(env, dict(op="get", max_x=8, max_fail=2))
        env.check(obs["res"] is not None and obs["res"][0] == "ok", "canary")  # false when an exchange fails

    qs.append(Query("canary:get", canary, canary=True))
    only = os.environ.get("C18_ONLY")
    if only:
        qs = [q for q in qs if only in q.name or q.canary]
    return qs


def replay(item):
    common.plain_imports()
    cfg = dict(item["params"]["cfg"])
    env = Env(cex=item["cex"])
    obs = run_transfer(env, dict(cfg))
    oracle(env, cfg, obs)
    failed = [l for l, _ in env.failed]
    label = item["label"]
    return {"reproduced": label in failed, "observed": f"{cfg['op']} T={float(obs['T'])} exchanges {obs['log']} -> {str(obs['res'])[:60]} lock={obs['lock']} follow-up={str(obs.get('follow'))[:60]} :: failed={sorted(set(failed))}"[:800],
            "signature": f"{cfg['op']}: {label.split(':', 1)[1]}"}
