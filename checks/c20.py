"""C20 - binding handshakes complete under duplicates, and always end and can be retried.

Two real ``BindContext`` objects (a supplicant and a respondent) are cross-wired through a stub
"ether" that reproduces the glue of ``Fakeable._async_send_cmd/_handle_msg`` and the dispatcher's
routing (own echo to the sender, offer to every binding device, accept/confirm to the addressee),
on the virtual-time loop.  Per frame copy the loss is a solver Boolean and the arrival time a
solver real; RF repeats may arrive in the same read as the first copy (back to back in one loop
iteration) or later; a third-party offer can arrive at any time; either side may be absent.
Oracle per path: both attempts end, by their stated waits, with the packet tuple or a
BindingError; with nothing lost both succeed with the same offer / accept / confirm frames;
afterwards neither device is binding, nothing reached the loop's exception handler, and a fresh
loss-free attempt succeeds."""
from __future__ import annotations

import os
from fractions import Fraction

from checks import common
from checks.fsm import SymEnv, ReplayEnv, make_loop
from symx.runner import Query

PROPERTY = "C20"
LEVEL = "other"
EXPLANATION = __doc__
FUNCTIONS = [
    "ramses_rf.binding_fsm:BindContextRespondent.wait_for_binding_request",
    "ramses_rf.binding_fsm:BindContextSupplicant.initiate_binding_process",
    "ramses_rf.binding_fsm:BindContextRespondent._accept_offer",
    "ramses_rf.binding_fsm:BindContextSupplicant._make_offer",
    "ramses_rf.binding_fsm:BindContextSupplicant._confirm_accept",
    "ramses_rf.binding_fsm:BindStateBase._wait_for_fut_result",
    "ramses_rf.binding_fsm:BindStateBase._handle_wait_timer_expired",
    "ramses_rf.binding_fsm:BindStateBase._set_context_state",
    "ramses_rf.binding_fsm:BindStateBase.is_phase",
    "ramses_rf.binding_fsm:_DevIsWaitingForMsg.rcvd_msg",
    "ramses_rf.binding_fsm:_DevIsReadyToSendCmd.send_cmd",
    "ramses_rf.binding_fsm:_DevIsReadyToSendCmd.rcvd_msg",
    "ramses_rf.binding_fsm:_DevSendCmdUntilReply.rcvd_msg",
    "ramses_rf.binding_fsm:BindContextBase.set_state",
    "ramses_tx.command:Command.put_bind",
]
BOUNDS = {
    "quick": "flows THM->CTL (30C9), DHW->CTL (1260), CO2->FAN (1298 + oem), REM->FAN (22F1,22F3); <=1 RF repeat per frame; deliveries budget 6 symbolic copies; one absent side; one third-party offer",
    "thorough": "<= 2 repeats, budget 8, loss on every copy, require_ratify / addenda flow",
}
OUTSIDE = ["the gateway send path beneath _async_send_cmd (C07-C09): a send returns its echo after a solver-chosen delay or fails", "TRV/other bespoke bindings", "real Device/Gateway objects (stub devices with the Fakeable glue)"]
STUBS = ["device: id + _async_send_cmd/_handle_msg replicating ramses_rf.device.base.Fakeable", "ether: routing as ramses_rf.dispatcher.process_msg does for 1FC9/10E0"]
ASSUMPTIONS = ["a frame copy arrives within 2 s of its transmission or is lost", "copies in the same serial read are handled back to back in one loop iteration (as PortTransport._read_ready + call_soon does)"]
MIN_CONCLUSIVE_FRACTION = 0.7

# the pairing flows the API supports (same parameters as the repo's own binding tests)
FLOWS = {
    "THM": dict(supp="34:259472", resp="01:220768", offer=["2309", "30C9", "0008"], accept=["2309"], confirm="2309", idx="01"),
    "DHW": dict(supp="07:045960", resp="01:145038", offer=["1260"], accept=["10A0"], confirm="1260", idx="00"),
    "CO2": dict(supp="37:154011", resp="18:126620", offer=["31E0", "1298", "2E10"], accept=["31D9", "31DA"], confirm=None, idx="00",
                ratify=" I --- 37:154011 63:262142 --:------ 10E0 038 000001002809010FEFFFFFFFFFF140107E5564D532D31324333390000000000000000000000"),
    "REM": dict(supp="32:208628", resp="30:098165", offer=["22F1"], accept=["31DA"], confirm=None, idx="21",
                ratify=" I --- 32:208628 63:262142 --:------ 10E0 030 000001C85A01016CFFFFFFFFFFFF010607E0564D4E2D32334C4D48323300"),
}


def setup(tier):
    common.install()


class Dev:
    """the part of Fakeable the binding code uses"""

    def __init__(self, ether, id_):
        from ramses_rf.binding_fsm import BindContext

        self.id, self.ether = id_, ether
        self._bind_context = BindContext(self)
        self.sent = []

    async def _async_send_cmd(self, cmd, priority=None, qos=None):
        if self._bind_context and self._bind_context.is_binding:
            self._bind_context.sent_cmd(cmd)
        return await self.ether.transmit(self, cmd)

    def _handle_msg(self, msg):
        if self._bind_context and self._bind_context.is_binding:
            self._bind_context.rcvd_msg(msg)


class Ether:
    def __init__(self, env, loop, cfg):
        self.env, self.loop, self.cfg = env, loop, cfg
        self.devs = {}
        self.n = 0
        self.budget = cfg.get("deliveries", 6)
        self.log = []
        self.delays = {}

    def _msg(self, frame):
        from datetime import datetime as dt
        from ramses_tx import Message, Packet

        return Message(Packet.from_port(dt(2024, 1, 1, 12), "045 " + frame))

    def _sym_delay(self, tag, hi):
        if self.budget <= 0 or not self.cfg.get("sym_times", True):
            return Fraction(1, 20) if not self.env.symbolic else 0.05
        self.budget -= 1
        wide = self.cfg.get("wide") or {}
        if tag in wide:
            # 'edge timing': this hop may take long, as long as the frame it carries still arrives inside the
            # wait it is awaited in, counted the way the statement counts it (from the end of the awaiting
            # side's own send): lo <= d_f(prev) + d - d_echo(prev) < wait
            d = self.env.real(f"d_{tag}", 0, Fraction(wide[tag]["hi"]).limit_denominator(1000))
            self.delays[tag] = d
            ge = wide[tag].get("ge")
            if ge and self.env.symbolic and ge in self.delays:
                self.env.ctx.assume((d >= self.delays[ge]).e)  # (the sender's own send has returned by then)
            c = wide[tag].get("within")
            if c and self.env.symbolic and all(k in self.delays for k in c["after"]):
                f_prev, e_prev = (self.delays[k] for k in c["after"])
                self.env.ctx.assume((f_prev + d - e_prev < Fraction(c["wait"]).limit_denominator(1000)).e)
                self.env.ctx.assume((f_prev + d - e_prev >= 0).e)
            return d
        if self.cfg.get("prompt"):  # "arrivals inside the waits": 6 hops x 0.4 s < the 3 s confirm wait
            hi = min(hi, Fraction(2, 5))
        d = self.env.real(f"d_{tag}", 0, hi)
        self.delays[tag] = d
        return d

    def _lost(self, tag):
        if not self.cfg.get("loss"):
            return False
        return self.env.flag(f"lost_{tag}")

    def _targets(self, sender, msg):
        from ramses_tx import ALL_DEV_ADDR
        from ramses_rf.const import Code

        others = [d for d in self.devs.values() if d is not sender]
        if msg.code == Code._1FC9 and msg.payload["phase"] == "offer":
            return [d for d in others if d._bind_context.is_binding]
        if msg.dst == ALL_DEV_ADDR:
            return others
        return [d for d in others if d.id == msg.dst.id]

    def _deliver(self, dev, msgs):
        # one read chunk: each message is dispatched by its own call_soon, as the dispatcher does
        for m in msgs:
            self.loop.call_soon(dev._handle_msg, m)

    async def transmit(self, sender, cmd):
        import asyncio
        from ramses_tx import exceptions as txe

        i = self.n
        self.n += 1
        frame = str(cmd)
        self.log.append((self.loop.time(), sender.id, frame[:60]))
        if self.cfg.get("send_fails") and self.env.flag(f"sendfail_{i}"):
            await asyncio.sleep(self._sym_delay(f"sf{i}", 10))
            raise txe.ProtocolSendFailed("stub: no echo")
        # the sender's own echo comes back through the dispatcher ...
        echo = self._msg(frame)
        d_echo = self._sym_delay(f"echo{i}", 1)
        self.loop.call_later(d_echo, self._deliver, sender, [echo])
        # ... and the frame (plus RF repeats) reaches the addressed / listening devices
        reps = self.cfg.get("repeats", 0)
        for dev_id in [d.id for d in self.devs.values() if d is not sender]:
            dev = self.devs[dev_id]
            copies = []
            if not self._lost(f"f{i}"):
                copies.append(self._msg(frame))
            same_read = []
            later = []
            for r in range(reps):
                if self._lost(f"f{i}r{r}"):
                    continue
                if self.env.flag(f"f{i}r{r}_same_read"):
                    same_read.append(self._msg(frame))
                else:
                    later.append(self._msg(frame))
            d0 = self._sym_delay(f"f{i}", 2)

            def arrive(dev=dev, batch=copies + same_read):
                tg = [m for m in batch if dev in self._targets(sender, m)]
                if tg:
                    self._deliver(dev, tg)

            if copies or same_read:
                self.loop.call_later(d0, arrive)
            for r, m in enumerate(later):
                dr = self._sym_delay(f"f{i}l{r}", 2)
                self.loop.call_later(d0 + dr, lambda dev=dev, m=m: (dev in self._targets(sender, m)) and self._deliver(dev, [m]))
        # the send returns the echo packet once the gateway has it
        await asyncio.sleep(d_echo)
        return echo._pkt


def run_episode(env, cfg):
    import asyncio
    from symx.vloop import running
    from ramses_rf import exceptions as exc
    from ramses_tx import Command

    flow = FLOWS[cfg.get("flow", "THM")]
    loop = make_loop(env)
    ether = Ether(env, loop, cfg)
    with running(loop):
        S = Dev(ether, flow["supp"])
        R = Dev(ether, flow["resp"])
    ether.devs = {S.id: S, R.id: R}
    res = {}

    def attempt(tag, who):
        async def run():
            t0 = loop.time()
            try:
                if who == "R":
                    r = await R._bind_context.wait_for_binding_request(flow["accept"], idx=flow["idx"], require_ratify=cfg.get("ratify", False))
                else:
                    ratify = None
                    if cfg.get("ratify"):
                        ratify = Command(flow["ratify"])
                    r = await S._bind_context.initiate_binding_process(flow["offer"], confirm_code=flow["confirm"], ratify_cmd=ratify)
                res[tag] = ("ok", tuple(str(p)[:200] if p is not None else None for p in r))
            except exc.BindingError as e:
                res[tag] = ("binding-error", type(e).__name__)
            except BaseException as e:  # noqa: BLE001
                if isinstance(e, KeyboardInterrupt):
                    raise
                res[tag] = ("bad-exc", type(e).__name__, str(e)[:80])
            res[tag + ":t"] = loop.time() - t0

        return run()

    tasks = {}
    present = cfg.get("present", "both")
    if present in ("both", "R"):
        tasks["R1"] = loop.create_task(attempt("R1", "R"))
    if present in ("both", "S"):
        async def later():
            d = cfg.get("supp_start", 0)
            if d == "sym":
                d = env.real("supp_start", 0, 6)
            await asyncio.sleep(d)
            await attempt("S1", "S")
        tasks["S1"] = loop.create_task(later())
    if cfg.get("third_party"):
        # an offer from an unrelated device while we are binding
        t3 = env.real("t_third", 0, 6)
        # ... self-addressed (evohome style) or to the broadcast address (Orcon style)
        dst3 = env.choice("third_dst", ["30:111111", "63:262142"])
        off = Command.put_bind(" I", "30:111111", ["31E0"], dst_id=dst3)
        m3 = ether._msg(str(off))

        def third():
            from ramses_rf.binding_fsm import RespIsWaitingForOffer

            for d in (S, R):
                # a respondent that is still waiting for *any* offer legitimately takes the first one it
                # hears: the unrelated offer is modelled as arriving once the real one has been seen
                if d._bind_context.is_binding and not isinstance(d._bind_context.state, RespIsWaitingForOffer):
                    loop.call_soon(d._handle_msg, m3)

        loop.call_later(t3, third)
    loop.run(until=lambda: all(t.done() for t in tasks.values()))
    hung = [k for k, t in tasks.items() if not t.done()]
    loop.run()
    obs = {"res": res, "hung": hung, "is_binding": (S._bind_context.is_binding, R._bind_context.is_binding),
           "loop_excs": [f"{type(c.get('exception')).__name__}: {c.get('exception')}"[:70] for c in loop.exc_contexts],
           "states": (str(S._bind_context.state), str(R._bind_context.state)), "present": present, "log": ether.log}
    # a fresh, loss-free attempt must be possible afterwards
    if cfg.get("retry", True):
        n_exc = len(loop.exc_contexts)
        ether.cfg = dict(flow=cfg.get("flow", "THM"), sym_times=False, ratify=cfg.get("ratify", False))
        ether.budget = 0
        cfg2 = cfg
        tr = loop.create_task(attempt("R2", "R"))
        ts = loop.create_task(attempt("S2", "S"))
        loop.run(until=lambda: tr.done() and ts.done())
        loop.run()
        obs["retry"] = (res.get("R2", ("hung",))[0], res.get("S2", ("hung",))[0])
        obs["retry_excs"] = [f"{type(c.get('exception')).__name__}: {c.get('exception')}"[:70] for c in loop.exc_contexts[n_exc:]]
        obs["is_binding_after_retry"] = (S._bind_context.is_binding, R._bind_context.is_binding)
    return obs


def oracle(env, cfg, obs):
    res = obs["res"]
    for tag in ("R1", "S1"):
        if tag not in res and tag not in obs["hung"] and not (tag == "R1" and obs["present"] == "S") and not (tag == "S1" and obs["present"] == "R"):
            env.check(False, "C20:attempt-ends", info=tag)
    for tag in obs["hung"]:
        env.check(False, "C20:attempt-ends", info=tag)
    for tag in ("R1", "S1"):
        if tag in res:
            r = res[tag]
            env.check(r[0] in ("ok", "binding-error"), "C20:tuple-or-binding-error", info=str(r))
            # stated waits: 5 s offer/accept + 3 s confirm (+ 3 s addenda) + the sends
            env.check(res[tag + ":t"] <= 25, "C20:ends-by-its-stated-waits")
    lossless = not cfg.get("loss") and not cfg.get("send_fails") and obs["present"] == "both" and cfg.get("supp_start", 0) != "sym"
    if lossless:
        ok = res.get("R1", ("-",))[0] == "ok" and res.get("S1", ("-",))[0] == "ok"
        env.check(ok, "C20:lossless-handshake-succeeds", info=str((res.get("R1"), res.get("S1")))[:160])
        if ok:
            r, s = res["R1"][1], res["S1"][1]
            same = all(_frame_of(a) == _frame_of(b) for a, b in zip(r[:3], s[:3]))
            env.check(same, "C20:both-ends-report-the-same-packets", info=str((r[:3], s[:3]))[:200])
    env.check(not any(obs["is_binding"]), "C20:not-binding-afterwards", info=str(obs["states"]))
    env.check(not obs["loop_excs"], "C20:no-unhandled-exception-in-loop", info=str(obs["loop_excs"][:2]))
    if "retry" in obs:
        env.check(obs["retry"] == ("ok", "ok"), "C20:new-attempt-can-start-and-succeeds", info=str(obs["retry"]))
        env.check(not obs["retry_excs"], "C20:no-unhandled-exception-in-loop(retry)", info=str(obs["retry_excs"][:2]))
        env.check(not any(obs["is_binding_after_retry"]), "C20:not-binding-after-retry")


def _frame_of(p):
    """frame text of a str(Packet/Command): drop the '# header' annotation"""
    return None if p is None else p.split(" # ")[0].split(" < ")[0].strip()[-200:]


def scenario(cfg):
    def fn(ctx):
        env = SymEnv(ctx)
        obs = run_episode(env, cfg)
        oracle(env, cfg, obs)
        return (obs["res"].get("R1", ("-",))[0], obs["res"].get("S1", ("-",))[0], len(obs["loop_excs"]), obs.get("retry"))

    return fn


def configs(tier):
    thorough = tier == "thorough"
    out = []
    for flow in FLOWS:
        out.append((f"lossless[{flow}]", dict(flow=flow, deliveries=6, prompt=True)))
        out.append((f"lossless[{flow},repeat=1]", dict(flow=flow, deliveries=4, repeats=1, prompt=True)))
    # edge timing: the Accept takes up to 1 s to get out, the Confirm arrives up to 2.95 s after that send ended
    for flow in (FLOWS if thorough else ("THM", "REM")):
        out.append((f"edge-confirm[{flow}]", dict(flow=flow, deliveries=6, prompt=True, wide={"f0": {"hi": 0.4, "ge": "echo0"}, "echo1": {"hi": 1}, "f2": {"hi": 3.5, "within": {"after": ["f1", "echo1"], "wait": 2.95}}})))
    out.append(("no-supplicant[THM]", dict(flow="THM", present="R", deliveries=2)))
    out.append(("no-respondent[THM]", dict(flow="THM", present="S", deliveries=2)))
    out.append(("no-supplicant[CO2]", dict(flow="CO2", present="R", deliveries=2)))
    out.append(("no-respondent[REM]", dict(flow="REM", present="S", deliveries=2)))
    out.append(("late-supplicant[THM]", dict(flow="THM", supp_start="sym", deliveries=4)))
    out.append(("third-party[DHW]", dict(flow="DHW", third_party=True, deliveries=4, prompt=True)))
    out.append(("third-party[REM]", dict(flow="REM", third_party=True, deliveries=4, prompt=True)))
    out.append(("loss[THM]", dict(flow="THM", loss=True, deliveries=4)))
    out.append(("loss[CO2,repeat=1]", dict(flow="CO2", loss=True, repeats=1, deliveries=3)))
    out.append(("send-fails[DHW]", dict(flow="DHW", send_fails=True, deliveries=4)))
    if thorough:
        for flow in FLOWS:
            out.append((f"lossless[{flow},repeat=2]", dict(flow=flow, deliveries=6, repeats=2, prompt=True)))
            out.append((f"loss[{flow},repeat=1,k=6]", dict(flow=flow, loss=True, repeats=1, deliveries=6)))
        out.append(("ratify[REM]", dict(flow="REM", ratify=True, deliveries=4, prompt=True)))
        out.append(("ratify[REM,loss]", dict(flow="REM", ratify=True, loss=True, deliveries=4)))
    return out


def queries(tier, seed):
    thorough = tier == "thorough"
    qs = []
    for name, cfg in configs(tier):
        qs.append(Query(name, scenario(cfg), {"cfg": cfg}, group=name.split("[")[0], max_secs=1200 if thorough else 280, max_paths=300_000 if thorough else 60_000, split_depth=8,
                        weight=cfg.get("deliveries", 4) * (1 + cfg.get("repeats", 0)) * (2 if cfg.get("loss") else 1)))

    def canary(ctx):
        env = SymEnv(ctx)
        obs = run_episode(env, dict(flow="THM", present="R", deliveries=1, retry=False))
        env.check(obs["res"].get("R1", ("-",))[0] == "ok", "C20:canary")  # nobody offers: cannot succeed

    qs.append(Query("canary:C20", canary, canary=True))
    only = os.environ.get("C20_ONLY")
    if only:
        qs = [q for q in qs if only in q.name]
    return qs


def replay(item):
    common.plain_imports()
    cfg = item["params"]["cfg"]
    env = ReplayEnv(item["cex"])
    obs = run_episode(env, cfg)
    oracle(env, cfg, obs)
    failed = [l for l, _ in env.failed]
    infos = [str(i)[:90] for l, i in env.failed if l == item["label"]]
    sig = f"{item['label']} [{item['group']}]"
    if infos and ("Error" in infos[0] or "exc" in infos[0]):
        import re

        m = re.search(r"(InvalidStateError|TimeoutError|CancelledError|AssertionError|TypeError|AttributeError|KeyError)", infos[0])
        if m:
            sig += f" {m.group(1)}"
    return {"reproduced": item["label"] in failed, "observed": f"failed={sorted(set(failed))} input={item['cex']} res={obs['res']} states={obs['states']} excs={obs['loop_excs'][:2]} retry={obs.get('retry')}"[:900], "signature": sig}
