"""C10 - device filters are sound and complete.

The real filter code (``_DeviceIdFilterMixin._set_active_hgi/_is_wanted_addrs/pkt_received/
send_cmd`` on a real ``PortProtocol``, ``Gateway.get_device.check_filter_lists`` and
``select_device_filter_mode``) runs with the *memberships* of every id in the known list and the
block list as free solver Booleans (so the result holds for lists of any size and content), the
enforcement flag, the active-gateway choice and the direction symbolic.  On every path the
delivered / sent / created outcome is compared with an independent reading of the statement:

    allowed(id) := id not in block_list  and  ( not enforce  or  id in known_list
                   or id == active gateway  or id in {63:262142, --:------}
                   or (sending and id == 18:000730) )
    delivered / sent  <=>  allowed(src) and allowed(dst)
    not allowed(id)   ==>  no device is created for id
"""
from __future__ import annotations

import os

from checks import common
from symx.runner import Query

PROPERTY = "C10"
LEVEL = "other"
EXPLANATION = __doc__
FUNCTIONS = [
    "ramses_tx.protocol:_DeviceIdFilterMixin._is_wanted_addrs",
    "ramses_tx.protocol:_DeviceIdFilterMixin._set_active_hgi",
    "ramses_tx.protocol:_DeviceIdFilterMixin.pkt_received",
    "ramses_tx.protocol:_DeviceIdFilterMixin.send_cmd",
    "ramses_tx.protocol:_DeviceIdFilterMixin._extract_known_hgi_id",
    "ramses_tx.protocol:_BaseProtocol._pkt_received",
    "ramses_tx.schemas:select_device_filter_mode",
    "ramses_rf.gateway:Gateway.get_device",
]
BOUNDS = {
    "ids": "id classes: a controller, a TRV, a relay, the 18:000730 placeholder, two other 18: ids, 63:262142, --:------; memberships in known/block list are free Booleans",
    "active gateway": "unknown | 18:123456 | 18:999999 (set through the real _set_active_hgi, so a block-listed gateway stays unknown)",
    "pairs": "all 64 (src, dst) pairs on the predicate; all pairs that form a legal address set through pkt_received / send_cmd",
}
OUTSIDE = ["dispatcher._create_devices_from_addrs (needs a live gateway)", "the FSM's own view of received packets (PortProtocol hands filtered packets to its ProtocolContext by design)"]
STUBS = ["transport: object with get_extra_info()/write_frame() recorder", "known/block lists: list/dict subclasses whose membership test is a solver Boolean"]
ASSUMPTIONS = ["the statement's exemption 'the active gateway' means the id handed to _set_active_hgi; 18:000730 is exempt when sending (placeholder for the active gateway)"]

UNIV = ["01:111111", "04:222222", "13:333333", "18:000730", "18:123456", "18:999999", "63:262142", "--:------"]
GWYS = [None, "18:123456", "18:999999"]


def setup(tier):
    common.install()


# ------------------------------------------------------------------------------------------


def _symlists():
    import z3
    import symx

    class SymList(list):
        """ids whose membership is symbolic: ``x in lst`` -> SymBool (registered as input)"""

        def __init__(self, name, base=()):
            super().__init__(base)
            self.name = name

        def _bit(self, x):
            c = symx.core.ctx()
            key = f"{self.name}[{x}]"
            if key not in c.inputs:
                c.inputs[key] = symx.SymBool(z3.Bool(key))
            return c.inputs[key]

        def __sx_contains__(self, x):
            if list.__contains__(self, x):
                return True
            return self._bit(x)

        def __contains__(self, x):
            return bool(self.__sx_contains__(x))

        def append(self, x):  # _unwanted.append(): remember concretely
            list.append(self, x)

    class SymDict(dict):
        def __init__(self, name):
            super().__init__()
            self._l = SymList(name)

        def __sx_contains__(self, x):
            return self._l.__sx_contains__(x)

        def __contains__(self, x):
            return bool(self.__sx_contains__(x))

        def get(self, k, d=None):
            return d if d is not None else {}

    return SymList, SymDict


def _bit(name, i):
    import z3
    import symx

    b = z3.Bool(f"{name}[{i}]")
    c = symx.core.CTX
    if c is not None and f"{name}[{i}]" not in c.inputs:
        c.inputs[f"{name}[{i}]"] = symx.SymBool(b)
    return b


def _ref_allowed(i, enforce, active, sending):
    """z3 formula of the statement's allowed(id)"""
    import z3

    blk = _bit("blk", i)
    knw = z3.BoolVal(True) if i in ("63:262142", "--:------") else _bit("knw", i)
    return z3.And(z3.Not(blk), z3.Or(z3.Not(enforce), knw, z3.BoolVal(active == i), z3.BoolVal(bool(sending) and i == "18:000730")))


def _mk_protocol(ctx, gw_choice):
    """real PortProtocol with symbolic lists; the active gateway is set by the real code"""
    import symx
    import z3
    from symx.vloop import VLoop, running
    from ramses_tx.protocol import PortProtocol

    SymList, _ = _symlists()
    loop = VLoop()
    got = []
    with running(loop):
        p = PortProtocol(got.append)
    # what the real __init__ put into the lists for *empty* configured lists (its own sentinels) stays concrete;
    # membership of every other id is a solver Boolean
    p._exclude = SymList("blk", list(p._exclude))
    p._include = SymList("knw", list(p._include))
    enforce = symx.sym_bool(ctx, "enforce")
    p.enforce_include = enforce
    if gw_choice is not None:
        p._set_active_hgi(gw_choice)  # real code: a block-listed gateway is not adopted
    return loop, p, got, enforce.e


def h_predicate(ctx, src, dst):
    import symx
    import z3

    gw = symx.choice(ctx, "gateway", GWYS)
    loop, p, got, enforce = _mk_protocol(ctx, gw)
    sending = symx.flag(ctx, "sending")
    res = p._is_wanted_addrs(src, dst, sending=sending)
    active = p._active_hgi
    ref = z3.And(_ref_allowed(src, enforce, active, sending), _ref_allowed(dst, enforce, active, sending))
    ctx.check(ref == z3.BoolVal(bool(res)), "filter:predicate")
    # the active gateway is adopted iff it is not block-listed
    if gw is not None:
        ctx.check(z3.BoolVal(active == gw) == z3.Not(_bit("blk", gw)), "filter:active-gateway-adoption")
    return ("wanted" if res else "dropped", "send" if sending else "recv")


def _frame(verb, src, dst):
    if src in ("63:262142", "--:------"):
        return None
    if dst == "--:------":
        return f"{verb} --- --:------ --:------ {src} 30C9 003 0007D0" if verb == " I" else None
    if src == dst:
        return f"{verb} --- {src} --:------ {src} 30C9 003 0007D0" if verb == " I" else None
    if src in ("63:262142", "--:------"):
        return None
    return f"{verb} --- {src} {dst} --:------ 30C9 003 0007D0"


def h_receive(ctx, src, dst):
    import z3
    import symx
    from datetime import datetime as dt
    from ramses_tx.packet import Packet

    gw = symx.choice(ctx, "gateway", GWYS)
    loop, p, got, enforce = _mk_protocol(ctx, gw)
    pkt = Packet(dt(2024, 1, 1), "045 " + _frame(" I", src, dst))
    s, d = pkt.src.id, pkt.dst.id
    p._context = None  # the FSM is not under test here
    p.pkt_received(pkt)
    loop.run()
    ref = z3.And(_ref_allowed(s, enforce, p._active_hgi, False), _ref_allowed(d, enforce, p._active_hgi, False))
    ctx.check(ref == z3.BoolVal(len(got) == 1), "filter:delivery")
    return "delivered" if got else "dropped"


def h_send(ctx, src, dst):
    import z3
    import symx
    from ramses_tx.command import Command
    from ramses_tx import exceptions as exc

    gw = symx.choice(ctx, "gateway", GWYS)
    loop, p, got, enforce = _mk_protocol(ctx, gw)
    cmd = Command(_frame(" W", src, dst))
    reached = []

    async def fake_send(self_cmd, *a, **k):
        reached.append(self_cmd)
        return "PKT"  # any non-None result: PortProtocol.send_cmd turns None into ProtocolSendFailed

    # the gate is _DeviceIdFilterMixin.send_cmd; what lies behind it (_BaseProtocol.send_cmd) is replaced
    from ramses_tx import protocol as P

    orig = P._BaseProtocol.send_cmd
    P._BaseProtocol.send_cmd = lambda self, c, *a, **k: fake_send(c, *a, **k)
    alerts = []

    async def fake_alert(c):
        alerts.append(c)

    p._send_impersonation_alert = fake_alert  # the notice is another frame (C07), not the command
    out = {}

    async def main():
        try:
            await p.send_cmd(cmd)
            out["r"] = "passed"
        except exc.ProtocolError:
            out["r"] = "refused"

    try:
        t = loop.create_task(main())
        loop.run(t)
    finally:
        P._BaseProtocol.send_cmd = orig
    s, d = cmd.src.id, cmd.dst.id
    ref = z3.And(_ref_allowed(s, enforce, p._active_hgi, True), _ref_allowed(d, enforce, p._active_hgi, True))
    ctx.check(ref == z3.BoolVal(out["r"] == "passed"), "filter:send-gate")
    ctx.check(z3.BoolVal((out["r"] == "passed") == (len(reached) == 1)), "filter:send-reaches-radio-iff-passed")
    return out["r"]


class _StubGwy:
    pass


def h_create(ctx, dev_id):
    import z3
    import symx
    from ramses_rf.gateway import Gateway

    SymList, SymDict = _symlists()
    g = _StubGwy()
    g._unwanted = SymList("unw")
    g._include = SymDict("knw")
    g._exclude = SymDict("blk")
    enforce = symx.sym_bool(ctx, "enforce")
    g._enforce_known_list = enforce
    gw = symx.choice(ctx, "gateway", GWYS)
    hgi_known = symx.flag(ctx, "hgi_device_exists")
    g.hgi = type("H", (), {"id": gw})() if (gw and hgi_known) else None
    g._protocol = type("P", (), {"hgi_id": gw or "18:000730"})()
    sentinel = object()
    g.device_by_id = {dev_id: sentinel}
    try:
        r = Gateway.get_device(g, dev_id)
        created = r is sentinel
    except LookupError:
        created = False
    # the statement: block-listed ids, and (when enforced) ids that are neither listed nor the
    # active gateway, never give rise to a device
    hgi_id = g._protocol.hgi_id  # active gateway, else the placeholder that stands for it
    allowed = _ref_allowed(dev_id, enforce.e, hgi_id, False)
    regions = {"blocked-active-gateway": z3.And(_bit("blk", dev_id), z3.BoolVal(dev_id == hgi_id))}
    ctx.check(z3.Implies(z3.Not(allowed), z3.BoolVal(not created)), "filter:device-creation", regions=regions)
    # ... and never over-blocks: an allowed device id (not one that was turned down or found invalid before, not a
    # broadcast/null address - those are not devices) does get its device, the active gateway included even before
    # its own device object exists
    if dev_id[:2] not in ("63", "--"):
        ctx.check(z3.Implies(z3.And(allowed, z3.Not(_bit("unw", dev_id))), z3.BoolVal(created)), "filter:allowed-device-is-created")
    return "created" if created else "refused"


MODE_IDS = ["01:111111", "04:222222", "18:123456", "18:999999"]


def h_mode(ctx):
    """enforcement is in force exactly when it is asked for and there is a known list to enforce - whatever the
    lists contain (any subset of a controller, a TRV and two gateway ids, with or without an explicit HGI class)"""
    import symx
    from ramses_tx.schemas import select_device_filter_mode

    enforce = symx.flag(ctx, "enforce")
    known = {i: ({"class": "HGI"} if (i[:2] == "18" and symx.flag(ctx, f"hgi_class[{i}]")) else {}) for i in MODE_IDS if symx.flag(ctx, f"known[{i}]")}
    block = {i: {} for i in MODE_IDS if symx.flag(ctx, f"block[{i}]")}
    r = select_device_filter_mode(enforce, known, block)
    ctx.check(r == (enforce and bool(known)), "filter:mode", info=f"enforce={enforce} known={sorted(known)} block={sorted(block)} -> {r}")
    return "ok"


def queries(tier, seed):
    qs = []
    only = os.environ.get("C10_ONLY", "")
    for s in UNIV:
        for d in UNIV:
            qs.append(Query(f"predicate[{s},{d}]", lambda c, s=s, d=d: h_predicate(c, s, d), {"src": s, "dst": d, "h": "predicate"}, group="predicate", max_secs=120))
            if _frame(" I", s, d):
                qs.append(Query(f"receive[{s},{d}]", lambda c, s=s, d=d: h_receive(c, s, d), {"src": s, "dst": d, "h": "receive"}, group="receive", max_secs=120))
            if _frame(" W", s, d):
                qs.append(Query(f"send[{s},{d}]", lambda c, s=s, d=d: h_send(c, s, d), {"src": s, "dst": d, "h": "send"}, group="send", max_secs=120))
    for i in UNIV:
        if i not in ("63:262142", "--:------"):
            qs.append(Query(f"create[{i}]", lambda c, i=i: h_create(c, i), {"dev_id": i, "h": "create"}, group="create", max_secs=120))
    qs.append(Query("mode", h_mode, {"h": "mode"}, group="mode"))

    def canary(c):
        import z3
        import symx

        loop, p, got, enforce = _mk_protocol(c, None)
        res = p._is_wanted_addrs("01:111111", "04:222222")
        c.check(z3.BoolVal(bool(res)) == z3.BoolVal(True), "canary")  # false whenever filtered

    qs.append(Query("canary:predicate", canary, canary=True))
    if only:
        qs = [q for q in qs if only in q.name]
    return qs


# ------------------------------------------------------------------------------------------


def replay(item):
    """Concrete re-run on the plain package with real list/dict configuration objects."""
    import asyncio
    from datetime import datetime as dt

    common.plain_imports()
    from ramses_tx.protocol import PortProtocol
    from ramses_tx.packet import Packet
    from ramses_tx.command import Command
    from ramses_tx import exceptions as exc

    cex, prm = item["cex"], item["params"]
    known = {k[4:-1]: {} for k, v in cex.items() if k.startswith("knw[") and v}
    block = {k[4:-1]: {} for k, v in cex.items() if k.startswith("blk[") and v}
    unw = [k[4:-1] for k, v in cex.items() if k.startswith("unw[") and v]
    enforce = bool(cex.get("enforce", False))
    gw = cex.get("gateway")
    sending = bool(cex.get("sending", False))

    def allowed(i, active, snd):
        return i not in block and (not enforce or i in known or i == active or i in ("63:262142", "--:------") or (snd and i == "18:000730"))

    async def run():
        got = []
        h = prm["h"]
        if h == "mode":
            from ramses_tx.schemas import select_device_filter_mode

            kn = {i: ({"class": "HGI"} if cex.get(f"hgi_class[{i}]") else {}) for i in MODE_IDS if cex.get(f"known[{i}]")}
            bl = {i: {} for i in MODE_IDS if cex.get(f"block[{i}]")}
            r = select_device_filter_mode(enforce, kn, bl)
            return r != (enforce and bool(kn)), f"select_device_filter_mode(enforce={enforce}, known={kn}, block={sorted(bl)}) -> {r}", "filter mode: enforcement dropped / invented"
        if h == "create":
            from ramses_rf.gateway import Gateway

            g = _StubGwy()
            g._unwanted, g._include, g._exclude, g._enforce_known_list = list(unw), dict(known), dict(block), enforce
            g.hgi = type("H", (), {"id": gw})() if (gw and cex.get("hgi_device_exists")) else None
            g._protocol = type("P", (), {"hgi_id": gw or "18:000730"})()
            sentinel = object()
            dev_id = prm["dev_id"]
            g.device_by_id = {dev_id: sentinel}
            try:
                created = Gateway.get_device(g, dev_id) is sentinel
            except LookupError:
                created = False
            hgi_id = g._protocol.hgi_id
            if item["label"] == "filter:allowed-device-is-created":
                bad = allowed(dev_id, hgi_id, False) and dev_id not in unw and not created
                return bad, f"dev_id={dev_id} created={created} known={sorted(known)} block={sorted(block)} enforce={enforce} active gateway={gw} (its device exists: {bool(cex.get('hgi_device_exists'))})", "get_device refuses an allowed device id"
            bad = (not allowed(dev_id, hgi_id, False)) and created
            sig = "get_device: a block-listed active gateway still gets a device" if (dev_id in block and dev_id == hgi_id) else "get_device creates a device for a non-allowed id"
            return bad, f"dev_id={dev_id} created={created} known={sorted(known)} block={sorted(block)} enforce={enforce} gateway={gw}", sig
        p = PortProtocol(got.append, enforce_include_list=enforce, exclude_list=block, include_list=known)
        if gw:
            p._set_active_hgi(gw)
        src, dst = prm["src"], prm["dst"]
        if h == "predicate":
            res = p._is_wanted_addrs(src, dst, sending=sending)
            ref = allowed(src, p._active_hgi, sending) and allowed(dst, p._active_hgi, sending)
            if item["label"] == "filter:active-gateway-adoption":
                return (p._active_hgi == gw) != (gw not in block), f"active={p._active_hgi} gw={gw} block={sorted(block)}", "active gateway adoption"
            return bool(res) != ref, f"_is_wanted_addrs({src},{dst},sending={sending})={res} ref={ref} known={sorted(known)} block={sorted(block)} enforce={enforce} active={p._active_hgi}", "filter predicate disagrees with the statement"
        if h == "receive":
            p._context = None
            pkt = Packet(dt(2024, 1, 1), "045 " + _frame(" I", src, dst))
            p.pkt_received(pkt)
            await asyncio.sleep(0.01)
            ref = allowed(pkt.src.id, p._active_hgi, False) and allowed(pkt.dst.id, p._active_hgi, False)
            return (len(got) == 1) != ref, f"delivered={len(got)} ref={ref} known={sorted(known)} block={sorted(block)} enforce={enforce} active={p._active_hgi}", "receive filter disagrees with the statement"
        if h == "send":
            from ramses_tx import protocol as P

            reached = []

            async def fake(self, c, *a, **k):
                reached.append(c)
                return "PKT"

            orig = P._BaseProtocol.send_cmd
            P._BaseProtocol.send_cmd = fake

            async def fake_alert(c):
                pass

            p._send_impersonation_alert = fake_alert
            try:
                cmd = Command(_frame(" W", src, dst))
                try:
                    await p.send_cmd(cmd)
                    r = "passed"
                except exc.ProtocolError:
                    r = "refused"
            finally:
                P._BaseProtocol.send_cmd = orig
            ref = allowed(cmd.src.id, p._active_hgi, True) and allowed(cmd.dst.id, p._active_hgi, True)
            return (r == "passed") != ref or (r == "passed") != (len(reached) == 1), f"send {r} reached={len(reached)} ref={ref}", "send gate disagrees with the statement"
        return False, "n/a", None

    bad, obs, sig = asyncio.run(run())
    return {"reproduced": bool(bad), "observed": obs, "signature": sig}
