"""C14 at the level of the real entities - what a zone reports is what the newest live message for it carried.

A real ``Gateway`` (as in checks/gwviews.py) learns a controller with zones 00-02 from one RP|0005, then receives
K state messages through the real ``_msg_handler`` -> ``process_msg`` -> ``Controller/Evohome/MultiZone/Zone
._handle_msg`` chain.  Per message the solver chooses the *form* (30C9 / 2309 array from the controller, RP|30C9,
RP|2309, I|2309 and RP|2349 for one zone, RP|1260 / RP|10A0 for the stored hot water), the zone the message is about (a solver hex digit), the value it
carries (a solver 16-bit word in the temperature range) and *when* it arrives (a solver real: the message's time
stamp is a SymInstant); the time of the read is a solver real as well.  All zones' ``temperature`` and ``setpoint``
are then read K + 2 times with a loop iteration in between (the read that notices an expiry still returns the stale
value - a recorded finding of the pinned tree - so the clauses are stated on the first and the last read).  Per path, against an independent reference (newest
arrival covering the zone, value = word/100, lifetime L from the message kind):

* newest-wins: if the newest message covering (zone, attribute) is younger than L, both reads return exactly its
  value - whatever other zones / codes / forms were interleaved, and whatever purging of older, expired messages
  the reads of other zones triggered;
* no-lingering: a value is reported only if some message carrying that value for that zone is younger than
  2L + 3 s; otherwise the attribute reads as unknown."""
from __future__ import annotations

from checks import gwviews as GV

CTL, HGI = "01:145038", "18:013393"
T0 = "2023-01-01T00:00:00.000000"
ZONES = ("00", "01", "02")
OTHER = {"00": "0834", "01": "0898", "02": "08FC"}  # the other elements of an array: fixed, so that a repeat can be byte-identical
FORMS = ("A30", "R30", "A23", "R23", "I23", "R49", "D60", "D0A")  # D..: the stored hot water's temperature (1260) / setpoint (10A0)
ATTR_OF = {"A30": "temperature", "R30": "temperature", "A23": "setpoint", "R23": "setpoint", "I23": "setpoint", "R49": "setpoint", "D60": "temperature", "D0A": "setpoint"}
ENTS = ZONES + ("HW",)
HORIZON = 30000  # seconds: beyond twice the longest lifetime involved


def frame_of(form, z, v):
    """z: 2-char zone idx (may be symbolic), v: 4-char hex word (may be symbolic)"""
    if form in ("A30", "A23"):
        code = "30C9" if form == "A30" else "2309"
        return None, code  # built per candidate zone below (the element position depends on z)
    if form == "R30":
        return f"... RP --- {CTL} {HGI} --:------ 30C9 003 " + z + v, "30C9"
    if form == "R23":
        return f"... RP --- {CTL} {HGI} --:------ 2309 003 " + z + v, "2309"
    if form == "I23":
        return f"...  I --- {CTL} --:------ {CTL} 2309 003 " + z + v, "2309"
    if form == "R49":
        return f"... RP --- {CTL} {HGI} --:------ 2349 007 " + z + v + "00FFFFFF", "2349"
    if form == "D60":
        return f"... RP --- {CTL} {HGI} --:------ 1260 003 00" + v, "1260"
    if form == "D0A":
        return f"... RP --- {CTL} {HGI} --:------ 10A0 006 00" + v + "0003E8", "10A0"
    raise ValueError(form)


def array_frame(code, zi, v):
    """array over zones 00-02 whose element ``zi`` (python int) carries v"""
    pay = ""
    for i, z in enumerate(ZONES):
        pay = pay + z + (v if i == zi else OTHER[z])
    return f"...  I --- {CTL} --:------ {CTL} {code} 009 " + pay


def lifetime_secs(msg):
    ls = msg._pkt._lifespan
    if ls in (False, True, None):
        return None
    return ls.total_seconds()


class Env:
    def __init__(self, ctx=None, cex=None):
        self.ctx, self.cex, self.symbolic, self.failed = ctx, cex or {}, ctx is not None, []

    def choice(self, name, options):
        if self.symbolic:
            import symx

            return symx.choice(self.ctx, name, options)
        v = self.cex.get(name)
        return next((o for o in options if o == v or str(o) == str(v)), options[-1])

    def real(self, name, lo, hi):
        if self.symbolic:
            import symx

            return symx.sym_real(self.ctx, name, lo, hi)
        from fractions import Fraction

        v = self.cex.get(name, lo)
        return Fraction(v["num"], v["den"]) if isinstance(v, dict) else Fraction(v)

    def word(self, name):
        """a 16-bit temperature word 0000..7EFE except the 31FF sentinel -> (hex text, value k)"""
        if self.symbolic:
            import symx
            from symx.values import sx_int

            h = symx.sym_hex(self.ctx, name, 4)
            k = sx_int(h, 16)
            c = symx.s_and(k <= 0x7EFE, k != 0x31FF)
            if not isinstance(c, bool):
                self.ctx.assume(c.e)
            return h, k
        h = self.cex.get(name, "07D0")
        return h, int(h, 16)

    def check(self, cond, label, info=None):
        if self.symbolic:
            return self.ctx.check(cond, label, info)
        if not cond:
            self.failed.append((label, info))
        return bool(cond)


def _at(base_dt, off, symbolic):
    if symbolic:
        from symx.stubs import SymInstant
        from symx.values import SymReal

        return SymInstant(base_dt, off if isinstance(off, SymReal) else SymReal.const(off))
    from datetime import timedelta

    return base_dt + timedelta(seconds=float(off))


def episode(env, forms):
    """-> outcome text"""
    from datetime import datetime

    run = GV.Runner(env.symbolic)
    base_dt = datetime.fromisoformat(T0)
    res, _ = run.feed(T0, f"... RP --- {CTL} {HGI} --:------ 0005 004 00080700")
    tcs = run.gwy.tcs
    if tcs is None or sorted(z.idx for z in tcs.zones) != list(ZONES):
        env.check(False, "C14gw:set-up-creates-the-three-zones", None)
        return "no-zones"
    zone = {z.idx: z for z in tcs.zones}
    arrivals = []  # (time offset, attr, {zone idx: value k}, L)
    t_prev = None
    for i, form in enumerate(forms):
        zi = env.choice(f"zone{i}", [0, 1, 2]) if form[0] != "D" else 0
        h, k = env.word(f"v{i}")
        if form == "D0A":  # 255.00 is the 10A0 'no hot water' sentinel, not a setpoint
            if env.symbolic:
                c = k != 25500
                if not isinstance(c, bool):
                    env.ctx.assume(c.e)
            elif k == 25500:
                return "bad-cex"
        t = env.real(f"t{i}", 1, HORIZON)
        if t_prev is not None:
            if env.symbolic:
                env.ctx.assume((t >= t_prev + 1).e)
            elif not t >= t_prev + 1:
                return "bad-cex"
        t_prev = t
        if form in ("A30", "A23"):
            frame = array_frame("30C9" if form == "A30" else "2309", zi, h)
            covers = {z: (k if j == zi else int(OTHER[z], 16)) for j, z in enumerate(ZONES)}
        elif form[0] == "D":
            frame, _ = frame_of(form, None, h)
            covers = {"HW": k}
        else:
            frame, _ = frame_of(form, ZONES[zi], h)
            covers = {ZONES[zi]: k}
        # the packet is built at a concrete stamp, then its time of receipt is made a solver instant
        from ramses_tx.message import Message
        from ramses_tx.packet import Packet

        pkt = Packet.from_file(T0, frame)
        when = _at(base_dt, t, env.symbolic)
        pkt._dtm = when
        msg = Message(pkt)
        msg.dtm = when
        run.tx.now = when
        from asyncio import events

        events._set_running_loop(run.loop)
        try:
            run.gwy._msg_handler(msg)
        finally:
            events._set_running_loop(None)
        run.spin()
        arrivals.append((t, ATTR_OF[form], covers, lifetime_secs(msg), form))
    r = env.real("read_after", 0, HORIZON)
    now = t_prev + r
    run.tx.now = _at(base_dt, now, env.symbolic)
    def read_all():
        out = {(z, a): getattr(zone[z], a) for z in ZONES for a in ("temperature", "setpoint")}
        dhw = tcs.dhw
        for a in ("temperature", "setpoint"):
            out[("HW", a)] = getattr(dhw, a) if dhw is not None else None
        return out

    first = read_all()
    run.spin()  # deferred purges of expired messages run here
    # recorded finding of the pinned tree: the read that notices an expiry still returns the stale value and only
    # schedules the purge; with a code pair (2309/2349) the next read then falls back to the older message of the
    # pair and notices *its* expiry the same way - so the no-lingering clause is stated on read number K + 2
    second = first
    for _ in range(len(forms) + 1):
        second = read_all()
        run.spin()
    from symx import s_and, s_implies, s_or

    for z in ENTS:
        for a in ("temperature", "setpoint"):
            cov = [(t, c[z], L, f) for (t, at, c, L, f) in arrivals if at == a and z in c]
            got1, got2 = first[(z, a)], second[(z, a)]
            if not cov:
                env.check(got1 is None and got2 is None, "C14gw:nothing-received-reads-unknown", f"zone {z} {a}: {got2!r}")
                continue
            t, k, L, f = cov[-1]  # newest arrival covering (z, a)
            age = now - t
            if L is not None:
                fresh = age < L
                want = k / 100
                ok1 = False if got1 is None else (got1 == want)
                ok2 = False if got2 is None else (got2 == want)
                env.check(s_implies(fresh, s_and(ok1, ok2)), "C14gw:newest-live-message-is-what-is-reported", f"zone {z} {a}: newest {f}")
            # no lingering: whatever is reported on the second read is carried by a message not yet certainly expired
            if got2 is not None:
                alive = [s_and(got2 == kk / 100, (now - tt) < 2 * LL + 3) if LL is not None else (got2 == kk / 100) for (tt, kk, LL, ff) in cov]
                env.check(s_or(*alive), "C14gw:an-expired-value-is-not-reported", f"zone {z} {a}")
    return "ok"


def h_fresh(ctx, forms):
    return episode(Env(ctx=ctx), forms)


def queries(tier):
    import itertools

    from symx.runner import Query

    thorough = tier == "thorough"
    qs = []
    combos = list(itertools.product(FORMS, repeat=2))
    if thorough:
        combos += [c for c in itertools.product(FORMS, repeat=3) if c[0] in ("A30", "A23") or c[1] in ("A30", "A23")]
    else:
        combos += [("A30", "R30", "A30"), ("A23", "R49", "I23"), ("A30", "A30", "R30"), ("R23", "A23", "A23"), ("A23", "R30", "R49"), ("R49", "A23", "R23"), ("D60", "A30", "D60"), ("D0A", "A23", "D60")]
    for forms in combos:
        qs.append(Query(f"gwfresh[{'>'.join(forms)}]", lambda c, f=forms: h_fresh(c, f), {"h": "gwfresh", "forms": list(forms)}, group="gwfresh", max_secs=600 if thorough else 200, max_paths=20000, weight=len(forms) ** 2))
    return qs


def replay(item):
    env = Env(cex=item["cex"])
    out = episode(env, item["params"]["forms"])
    labs = [l for l, _ in env.failed]
    info = next((i for l, i in env.failed if l == item["label"]), None)
    lab = item["label"].split(":", 1)[1]
    return {"reproduced": item["label"] in labs, "observed": f"forms {item['params']['forms']} inputs {item['cex']}: {out}; {info}"[:600],
            "signature": f"{lab} [{'>'.join(item['params']['forms'])}]" if item["label"] in labs else None}
