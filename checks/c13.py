"""C13 (claimed for the snapshot / restore clause) - taking a snapshot or restoring one leaves the gateway
running exactly as before, whether or not the operation itself succeeded.

The real ``Gateway.get_state`` and ``Gateway._restore_cached_packets`` with the real ``Gateway._pause/
_resume`` and ``Engine._pause/_resume`` run on a Gateway object that carries only what they read.
Solver variables: which stored messages there are (selector over the verb/code kinds the snapshot
distinguishes), each message's age (a real), ``include_expired``, the sending / discovery flags before
the call, and a *fault point*: which message's expiry test raises (and what), whether the temporary
protocol / transport factory or the replay task of a restore fails.  Per path, after the call - returned
or raised: the engine is not paused, the message handler and both flags are what they were, every
pause of reading/writing is matched by a resume, and the same operation can be invoked again.

Views clause (checks/gwviews.py): a real Gateway is fed a prefix of one of the repository's system logs and then
one more packet of that history whose payload has a solver-chosen 2-byte window (appended after the history, or
replacing the original line - a field mutation inside the history); every public view of the gateway and of each
device, system, zone and DHW, and get_state(), is then read: none raises, the engine is not left paused and a
later good packet handed over through the protocol's handler slot still reaches its device.

The expiry kernel that every view goes through is decided under C14.  Arbitrary *histories* (deletion,
reordering, splicing of many packets) are not a solver domain: the claim is for the stated history prefixes plus
one symbolic packet."""
from __future__ import annotations

import os

from checks import common
from checks import gwstate as G
from symx.runner import Query

PROPERTY = "C13"
LEVEL = "other"
EXPLANATION = __doc__
FUNCTIONS = ["ramses_rf.gateway:Gateway.get_state", "ramses_rf.gateway:Gateway._restore_cached_packets", "ramses_rf.gateway:Gateway._pause", "ramses_rf.gateway:Gateway._resume",
             "ramses_tx.gateway:Engine._pause", "ramses_tx.gateway:Engine._resume", "ramses_tx.message:Message._expired",
             "ramses_rf.gateway:Gateway._msg_handler", "ramses_rf.dispatcher:process_msg", "ramses_rf.dispatcher:_create_devices_from_addrs", "ramses_rf.entity_base:_MessageDB._handle_msg",
             "ramses_rf.entity_base:_MessageDB._msg_value_msg", "ramses_rf.system.heat:MultiZone._handle_msg", "ramses_rf.system.heat:System.schema", "ramses_rf.system.heat:System.status",
             "ramses_rf.system.zones:Zone.schema", "ramses_rf.system.zones:Zone.params", "ramses_rf.system.zones:Zone.status", "ramses_rf.device.heat:BdrSwitch.schema", "ramses_rf.device.heat:Controller._handle_msg",
             "ramses_rf.gateway:Gateway.schema", "ramses_rf.gateway:Gateway.params", "ramses_rf.gateway:Gateway.status", "ramses_rf.gateway:Gateway.known_list"]
BOUNDS = {"quick": {"stored messages": "2, each any of 6 verb/code kinds, ages solver reals in [0, 10^6] s", "fault points": "none / any one message's expiry test raising one of 3 exception types / factory or replay-task failure on restore",
                    "views": "history = first 33-45 lines of tests/tests/systems/{heat_simple,heat_otb_00,heat_ufc_01,_hvac_nuaire}/packet.log; one extra / mutated packet per episode: one representative of each (verb, code, device types, length, leading index) of the history, every 2-byte payload window (windows over embedded device ids, names and zone masks: thorough only); eavesdropping off"},
          "thorough": {"stored messages": 3, "views": "7 logs, up to 90 lines, all windows, eavesdropping off and on"}}
OUTSIDE = ["views after arbitrary packet histories (many-packet deletion / reordering / splicing is not a solver domain: only the stated log prefixes + one symbolic packet)", "splicing of packets of other systems into a history",
           "the SQLite message index"]
STUBS = ["views: real Gateway(input_file=os.devnull) on the virtual loop; transport -> object that only supplies the packet-log clock (time stamp of the newest packet)", "Gateway object without __init__ (engine lock/state, protocol and transport recorders, config flags, devices holding real Message objects)", "schema property -> constant",
         "restore: protocol_factory / transport_factory -> recorders that fail on a solver Boolean; the replay task -> a future that completes or raises"]
ASSUMPTIONS = ["a message's expiry test can raise (it did on the pinned tree: zero sync-cycle count-down) - the fault is injected by overriding _expired on one stored message"]
MIN_CONCLUSIVE_FRACTION = 0.8
KINDS = ["I-30C9", "RQ-2349", "W-0404", "I-313F", "I-1F09", "RP-0404"]
EXCS = {"ZeroDivisionError": ZeroDivisionError, "KeyError": KeyError, "NotImplementedError": NotImplementedError}


def setup(tier):
    common.install(td_modules=("ramses_tx.parsers", "ramses_tx.message"))
    import ramses_rf.entity_base  # noqa: F401
    import ramses_rf.gateway  # noqa: F401
    import ramses_rf.dispatcher  # noqa: F401


class Env:
    def __init__(self, ctx=None, cex=None):
        self.ctx, self.cex, self.symbolic, self.failed = ctx, cex, ctx is not None, []

    def choice(self, name, options):
        if self.symbolic:
            import symx

            return symx.choice(self.ctx, name, options)
        v = self.cex.get(name)
        return next((o for o in options if o == v or str(o) == str(v) or repr(o) == v), options[-1])

    def flag(self, name):
        if self.symbolic:
            import symx

            return symx.flag(self.ctx, name)
        return bool(self.cex.get(name, False))

    def real(self, name, lo, hi):
        if self.symbolic:
            import symx

            return symx.sym_real(self.ctx, name, lo, hi)
        from fractions import Fraction

        v = self.cex.get(name, lo)
        return Fraction(v["num"], v["den"]) if isinstance(v, dict) else Fraction(v)

    def check(self, cond, label, info=None):
        if self.symbolic:
            return self.ctx.check(cond, label, info)
        if not cond:
            self.failed.append((label, info))
        return bool(cond)


def run_snapshot(env, n):
    handler = lambda m: None  # noqa: E731
    ds, dd = env.flag("disable_sending"), env.flag("disable_discovery")
    fault = env.choice("fault_at", [None] + list(range(n)))
    exc_name = env.choice("fault_exc", list(EXCS)) if fault is not None else None
    msgs = []
    for k in range(n):
        tag = env.choice(f"kind{k}", KINDS)
        frame = dict(G.FRAMES)[tag]
        off = env.real(f"age{k}", 0, 1_000_000)
        msgs.append(G.mk_msg(frame, k, off, env.symbolic, raises=EXCS[exc_name]("injected") if fault == k else None))
    g = G.mk_gateway(handler, ds, dd, [G._Dev(msgs)])
    inc = env.flag("include_expired")
    out = None
    if env.flag("already_paused"):
        # another operation (a restore in progress) holds the engine paused: the snapshot must refuse and leave
        # that pause exactly as it is
        g._pause("held-by-restore")
        before = (g._engine_state, g._protocol._msg_handler, g._disable_sending, g.config.disable_discovery, list(g._protocol.calls), list(g._transport.calls))
        try:
            g.get_state(include_expired=inc)
            res = "returned"
        except RuntimeError:
            res = "refused"
        except Exception as e:  # noqa: BLE001
            res = f"raised {type(e).__name__}"
        after = (g._engine_state, g._protocol._msg_handler, g._disable_sending, g.config.disable_discovery, list(g._protocol.calls), list(g._transport.calls))
        env.check(res == "refused" and after == before, "C13:a-snapshot-during-another-pause-leaves-that-pause-alone", info=f"{res}; engine_state {'kept' if after[0] == before[0] else 'changed'}")
        try:
            args = g._resume()  # the holder's own resume must still work
            ok = list(args) == ["held-by-restore"] and not G.engine_as_before(g, handler, ds, dd)
        except RuntimeError as e:
            args, ok = f"RuntimeError: {e}", False
        env.check(ok, "C13:the-holder-of-the-pause-can-still-resume", info=str(args)[:80])
        return res, None, msgs, inc
    try:
        out = g.get_state(include_expired=inc)
        res = "returned"
    except Exception as e:  # noqa: BLE001
        res = f"raised {type(e).__name__}"
    bad = G.engine_as_before(g, handler, ds, dd)
    env.check(not bad, "C13:engine-as-before-after-a-snapshot", info="; ".join(bad)[:150])
    # a second snapshot must be possible (not 'already paused')
    try:
        g.devices = [G._Dev([m for m in msgs if not hasattr(type(m), "_sx_bad") and type(m).__name__ != "Bad"])]
        g.get_state(include_expired=inc)
        again = True
    except RuntimeError as e:
        again = False
        res += f"; again: {e}"
    except Exception:  # noqa: BLE001
        again = True
    env.check(again, "C13:snapshot-can-be-taken-again", info=res[:120])
    return res, out, msgs, inc


def h_snapshot(ctx, n):
    env = Env(ctx=ctx)
    res, out, msgs, inc = run_snapshot(env, n)
    return res.split(";")[0]


def run_restore(env):
    import asyncio

    from ramses_rf import gateway as GW
    from symx.vloop import VLoop, running

    handler = lambda m: None  # noqa: E731
    ds, dd = env.flag("disable_sending"), env.flag("disable_discovery")
    g = G.mk_gateway(handler, ds, dd, [])
    f_proto, f_tx = env.flag("protocol_factory_fails"), env.flag("transport_factory_fails")
    f_task = env.choice("replay_task", ["completes", "raises", "cancelled", "never-completes-and-the-restore-is-cancelled"])
    loop = VLoop(0)

    def protocol_factory(*a, **k):
        if f_proto:
            raise ValueError("injected: protocol factory")
        return object()

    async def transport_factory(*a, **k):
        if f_tx:
            raise GW.exc.TransportSourceInvalid("injected: transport factory") if hasattr(GW, "exc") else RuntimeError("injected")

        class T:
            def get_extra_info(self, name, default=None):
                fut = loop.create_future()
                if f_task == "raises":
                    fut.set_exception(RuntimeError("injected: replay task"))
                elif f_task == "cancelled":
                    fut.cancel()
                elif f_task == "completes":
                    fut.set_result(None)
                return fut

        return T()

    saved = (GW.protocol_factory, GW.transport_factory)
    GW.protocol_factory, GW.transport_factory = protocol_factory, transport_factory
    try:
        with running(loop):
            task = loop.create_task(g._restore_cached_packets({G.T0 % 1: dict(G.FRAMES)["I-30C9"]}))
        if f_task.startswith("never"):
            loop.call_later(1, task.cancel)  # the caller gives up (timeout / aborted start-up)
        loop.run(until=task)
        loop.run()
        if task.cancelled():
            res = "raised CancelledError"
        else:
            res = "returned" if task.exception() is None else f"raised {type(task.exception()).__name__}"
    finally:
        GW.protocol_factory, GW.transport_factory = saved
    bad = G.engine_as_before(g, handler, ds, dd)
    env.check(not bad, "C13:engine-as-before-after-a-restore", info="; ".join(bad)[:150])
    return res


def h_restore(ctx):
    return run_restore(Env(ctx=ctx))


def h_view_kernel(ctx, head, pay, off, w):
    """the read kernel behind the attribute views (_msg_value_msg) on any decodable message: never raises"""
    import symx
    from checks import c14
    from checks import decode as D
    from ramses_tx.message import Message
    from ramses_tx.packet import Packet

    payload = pay[:off] + (symx.sym_hex(ctx, "w", w) if w else "") + pay[off + w :]
    try:
        msg = Message(Packet.from_file(D.DTM, head + payload))
    except Exception:  # noqa: BLE001
        return "not-decoded"
    gwy = c14._Gwy(lambda: msg.dtm)
    msg._gwy = gwy
    ent = c14._entity(gwy)
    p = msg.payload
    keys = [None] + ([k for k in p][:4] if isinstance(p, dict) else ([k for k in p[0]][:3] if p and isinstance(p, list) and isinstance(p[0], dict) else []))
    zones = [None]
    if isinstance(p, list) and p and isinstance(p[0], dict) and "zone_idx" in p[0]:
        zones.append(p[0]["zone_idx"])
    for key in keys:
        for z in zones:
            try:
                ent._msg_value_msg(msg, key=key, zone_idx=z)
            except Exception as e:  # noqa: BLE001
                ctx.check(False, "C13:attribute-read-kernel-never-raises", info=f"{type(e).__name__} key={key}")
                return "raised"
    ctx.check(True, "C13:attribute-read-kernel-never-raises")
    return "ok"


def queries(tier, seed):
    thorough = tier == "thorough"
    from checks import c01

    vq = []
    for verb, code, head, pay in c01._bases(3 if thorough else 2):
        if verb not in (" I", "RP"):
            continue
        offs = range(0, len(pay), 4) if (thorough or code in ("1FC9", "0418", "3220", "000C", "0005", "0404")) else [0]
        for off in offs:
            w = min(4, len(pay) - off)
            vq.append(Query(f"view[{verb}|{code}|{len(pay) // 2}@{off}]", lambda c, a=(head, pay, off, w): h_view_kernel(c, *a), {"h": "view", "head": head, "pay": pay, "off": off, "w": w}, group="view", max_secs=60, max_paths=5000,
                            mode=("bv" if code == "3220" else "int")))
    for (verb, code), ls in sorted(c01._admissible_lengths(4).items()):
        if verb in (" I", "RP") and ls and code != "3220":
            n = ls[0]
            for tag, addrs in (("bcast", "01:145038 --:------ 01:145038"), ("to", "37:154011 28:126620 --:------")) if verb == " I" else (("to", "01:145038 18:006402 --:------"),):
                head = f"045 {verb} --- {addrs} {code} {n:03d} "
                vq.append(Query(f"viewfull[{verb}|{code}|{n}|{tag}]", lambda c, a=(head, "00" * n, 0, 2 * n): h_view_kernel(c, *a), {"h": "view", "head": head, "pay": "00" * n, "off": 0, "w": 2 * n}, group="view", max_secs=90, max_paths=20000))
    qs = vq + [Query(f"snapshot[n={n}]", lambda c, n=n: h_snapshot(c, n), {"h": "snapshot", "n": n}, group="snapshot", max_secs=900 if thorough else 240, max_paths=300_000, weight=n, split_depth=6) for n in ((1, 2) if not thorough else (1, 2, 3))]
    qs.append(Query("restore", h_restore, {"h": "restore"}, group="restore", max_secs=120))

    def canary(c):
        env = Env(ctx=c)
        res, out, msgs, inc = run_snapshot(env, 1)
        env.check(res == "returned", "canary")  # false on the injected-fault paths

    qs.append(Query("canary:snapshot", canary, canary=True))
    from checks import gwviews

    qs += gwviews.queries(tier)
    only = os.environ.get("C13_ONLY")
    if only:
        qs = [q for q in qs if only in q.name or q.canary]
    return qs


def replay(item):
    common.plain_imports()
    if item["params"]["h"] == "gwviews":
        from checks import gwviews

        return gwviews.replay(item)
    if item["params"]["h"] == "view":
        from checks import c14
        from checks import decode as D
        from ramses_tx.message import Message
        from ramses_tx.packet import Packet

        prm = item["params"]
        pay = prm["pay"][: prm["off"]] + item["cex"].get("w", "") + prm["pay"][prm["off"] + prm["w"] :]
        line = prm["head"] + pay
        msg = Message(Packet.from_file(D.DTM, line))
        gwy = c14._Gwy(lambda: msg.dtm)
        msg._gwy = gwy
        ent = c14._entity(gwy)
        p = msg.payload
        keys = [None] + ([k for k in p][:4] if isinstance(p, dict) else ([k for k in p[0]][:3] if p and isinstance(p, list) and isinstance(p[0], dict) else []))
        zones = [None] + ([p[0]["zone_idx"]] if isinstance(p, list) and p and isinstance(p[0], dict) and "zone_idx" in p[0] else [])
        for key in keys:
            for z in zones:
                try:
                    ent._msg_value_msg(msg, key=key, zone_idx=z)
                except Exception as e:  # noqa: BLE001
                    return {"reproduced": True, "observed": f"{line!r} -> {p!r}: _msg_value_msg(key={key!r}, zone_idx={z!r}) raised {type(e).__name__}: {e}"[:500], "signature": f"view kernel raises {type(e).__name__} [{line[41:45]}]"}
        return {"reproduced": False, "observed": f"{line!r}: reads fine", "signature": None}
    env = Env(cex=item["cex"])
    if item["params"]["h"] == "snapshot":
        res, out, msgs, inc = run_snapshot(env, item["params"]["n"])
    else:
        res = run_restore(env)
    failed = [l for l, _ in env.failed]
    infos = [i for l, i in env.failed if l == item["label"]]
    what = "get_state" if item["params"]["h"] == "snapshot" else "_restore_cached_packets"
    lab = item["label"].split(":", 1)[1]
    sig = f"{what} leaves the engine changed when it raises" if ("raised" in res and "engine-as-before" in lab) else f"{what}: {lab}"
    return {"reproduced": item["label"] in failed, "observed": f"{what} {res}: {infos[:1]}"[:500], "signature": sig}
