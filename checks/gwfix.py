"""C16 at the level of the real gateway - snapshot -> fresh gateway -> snapshot is a fixpoint of the packet set.

A real ``Gateway`` (as in checks/gwviews.py) is fed a prefix of one of the repository's system logs and one more
packet of that history with a solver-chosen 2-byte payload window; ``get_state()`` gives the snapshot S1.  A
*fresh* real Gateway is started with ``Gateway.start(cached_packets=S1)`` - the real ``_restore_cached_packets`` (temporary protocol +
``FileTransport`` over the packet dict, the real ``Packet.from_dict``, dispatcher and entity handlers) and is
asked for its snapshot S2; S1 is restored once more into the same gateway, giving S3.  Per path:

* S2's packets are exactly S1's (same time stamps, same frame text cell for cell) - nothing lost, nothing added;
* S3 == S2 - restoring into a gateway that already holds that state changes nothing;
* the snapshot holds no request, no write other than a schedule fragment, and every entry is a line the decoder
  accepts (it was accepted on restore: the fresh gateway holds it);
* the restore leaves the engine running (not paused).

The schema clause of the property (identical schema, eavesdropping off) is evaluated for the *concrete* histories
only, with the fresh gateway configured from the saved schema as the API intends; it is reported in the evidence
as a plain execution, not as a solver result."""
from __future__ import annotations

from checks import gwviews as GV


def _run_coro(run, coro):
    if run.symbolic:
        from symx.vloop import running

        with running(run.loop):
            task = run.loop.create_task(coro)
        run.loop.run(until=task, horizon=60)
        run.loop.run(horizon=0)
        if not task.done():
            raise RuntimeError("restore did not finish")
        return task.result()
    return run.loop.run_until_complete(coro)


def _same_snap(a, b):
    from checks.decode import eq_struct

    if sorted(a.keys()) != sorted(b.keys()):
        return False
    from symx import s_and

    return s_and(*[eq_struct(a[k], b[k]) for k in a]) if a else True


def episode(symbolic, lines, extra_dtm, extra_frame, check):
    A = GV.Runner(symbolic)
    for d, f in lines:
        A.feed(d, f)
    try:
        o, _ = A.feed(extra_dtm, extra_frame)
    except Exception as e:  # noqa: BLE001  (C13's subject)
        return f"handler raises {type(e).__name__}"
    try:
        s1 = A.gwy.get_state()[1]
    except Exception as e:  # noqa: BLE001  (C13's subject)
        return f"get_state raises {type(e).__name__}"
    B = GV.Runner(symbolic)
    B.tx.now = A.tx.now
    B.gwy._transport = None  # a gateway that has not been started yet
    # the fresh gateway is started the public way, Gateway.start(cached_packets=...); its own packet source is a
    # stand-in that connects, supplies the packet-log clock and reports end-of-file at once (the restore itself runs
    # on the real temporary protocol + FileTransport over the packet dict)
    import ramses_tx.gateway as TG

    async def fake_factory(protocol, **kw):
        protocol.connection_made(B.tx)
        B.loop.call_soon(protocol.connection_lost, None)
        return B.tx

    saved = TG.transport_factory
    TG.transport_factory = fake_factory
    try:
        _run_coro(B, B.gwy.start(start_discovery=False, cached_packets=dict(s1)))
        B.spin()
    except Exception as e:  # noqa: BLE001
        check(False, "C16gw:a-snapshot-can-be-restored", f"{type(e).__name__}: {str(e)[:80]}")
        return "restore raises"
    finally:
        TG.transport_factory = saved
    check(B.gwy._engine_state is None and B.gwy._protocol._msg_handler is not None, "C16gw:restore-leaves-the-engine-running", None)
    s2 = B.gwy.get_state()[1]
    check(_same_snap(s1, s2), "C16gw:snapshot-restore-snapshot-is-a-fixpoint", f"{len(s1)} packets saved, {len(s2)} after restore; missing {[k for k in s1 if k not in s2][:2]} extra {[k for k in s2 if k not in s1][:2]}")
    try:
        _run_coro(B, B.gwy._restore_cached_packets(dict(s1)))
        B.spin()
    except Exception as e:  # noqa: BLE001
        check(False, "C16gw:a-snapshot-can-be-restored", f"second time: {type(e).__name__}: {str(e)[:80]}")
        return "second restore raises"
    s3 = B.gwy.get_state()[1]
    check(_same_snap(s2, s3), "C16gw:restoring-twice-changes-nothing", f"{len(s2)} -> {len(s3)} packets")
    for k, v in s1.items():
        verb, code = v[4:6], v[41:45]
        ok = (verb in (" I", "RP")) or (verb == " W" and code == "0404")
        check(ok, "C16gw:snapshot-holds-no-request-and-no-write-but-schedule-fragments", f"{verb}|{code}")
    return f"{o}: {len(s1)} packets"


def h_fix(ctx, bname, lines, idx, off, w):
    import symx

    dtm, frame = lines[idx]
    head, pay = frame[:50], frame[50:]
    extra = head + pay[:off] + symx.sym_hex(ctx, "w", w) + pay[off + w:]
    return episode(True, lines, GV._dtm_plus(lines[-1][0], GV.T_AFTER), extra, ctx.check)


BASES_QUICK = [("heat_simple", 40), ("heat_otb_00", 45), ("heat_ufc_01", 45), ("_hvac_nuaire", 33)]
BASES_THOROUGH = [("heat_simple", 40), ("heat_otb_00", 90), ("heat_ufc_01", 90), ("_hvac_nuaire", 33), ("heat_ufc_00", 90), ("heat_zxdavb", 90), ("_heat_trv_00", 90)]


def queries(tier):
    from symx.runner import Query

    thorough = tier == "thorough"
    qs = []
    for bname, n in BASES_THOROUGH if thorough else BASES_QUICK:
        lines = GV.load_base(bname, n)
        if not lines:
            continue
        cands = GV.candidates(lines, thorough)
        if not thorough:
            cands = [c for c in cands if c[1] == 0]  # quick: the leading window (index / first value bytes) of every frame kind
        for i, off, w in cands:
            f = lines[i][1]
            name = f"gwfix[{bname}|{f[4:6].strip()}|{f[41:45]}|{f[11:13]}>{f[21:23]}|{len(f[50:]) // 2}@{off}#{i}]"
            qs.append(Query(name, lambda c, a=(bname, lines, i, off, w): h_fix(c, *a), {"h": "gwfix", "base": bname, "n": n, "idx": i, "off": off, "w": w}, group="gwfix", max_secs=300 if thorough else 120, max_paths=3000, weight=1.0,
                            mode=("bv" if f[41:45] == "3220" else "int")))
    return qs


def replay(item):
    prm = item["params"]
    lines = GV.load_base(prm["base"], prm["n"])
    dtm, frame = lines[prm["idx"]]
    head, pay = frame[:50], frame[50:]
    extra = head + pay[: prm["off"]] + item["cex"].get("w", "") + pay[prm["off"] + prm["w"]:]
    failed = []

    def check(cond, label, info=None):
        if cond is not True and not cond:
            failed.append((label, info))
        return bool(cond)

    out = episode(False, lines, GV._dtm_plus(lines[-1][0], GV.T_AFTER), extra, check)
    labs = [l for l, _ in failed]
    info = next((i for l, i in failed if l == item["label"]), None)
    lab = item["label"].split(":", 1)[1]
    return {"reproduced": item["label"] in labs, "observed": f"history {prm['base']}[:{prm['n']}] then {extra!r}: {out}; {info}"[:600],
            "signature": f"gateway {lab} [{frame[4:6].strip()}|{frame[41:45]}]" if item["label"] in labs else None}


def h_schema(ctx, bname, n, poll=False):
    """a plain execution (no solver variable): the schema clause on one concrete history"""
    r = _schema_one(bname, n, poll=poll)
    ctx.check(r[1], "C16gw:restored-gateway-reports-the-same-schema-and-packets", r[2])
    return "ok" if r[1] else "differs"


def schema_queries(tier):
    from symx.runner import Query

    # concrete, hence cheap: prefixes as elsewhere and the whole logs
    out = []
    for b, n in BASES_THOROUGH:
        for nn in (n, 10**6):
            out.append(Query(f"gwfix-schema[{b}|{'all' if nn > 10**5 else nn}]", lambda c, a=(b, nn): h_schema(c, *a), {"h": "gwfix-schema", "base": b, "n": nn}, group="gwfix-schema", max_secs=300))
        # ... and with a device that is only ever heard asking (requests are not part of a snapshot)
        out.append(Query(f"gwfix-schema[{b}|{n}+poller]", lambda c, a=(b, n, True): h_schema(c, *a), {"h": "gwfix-schema", "base": b, "n": n, "poll": True}, group="gwfix-schema", max_secs=300))
    return out


def replay_schema(item):
    GV._PLAIN[0] = True
    r = _schema_one(item["params"]["base"], item["params"]["n"], symbolic=False, poll=item["params"].get("poll", False))
    return {"reproduced": not r[1], "observed": f"history {r[0]}: saved schema + saved packets into a fresh gateway: {r[2]}"[:500], "signature": f"gateway schema after restore differs [{r[0]}]" if not r[1] else None}


def _schema_one(bname, n, symbolic=True, poll=False):
    import os
    from asyncio import events

    lines = GV.load_base(bname, n)
    if poll:
        ctl = next((f[11:20] for _, f in lines if f[11:13] == "01"), None) or next((f[11:20] for _, f in lines if f[11:13] not in ("18", "--", "63")), "01:145038")
        lines = lines + [(GV._dtm_plus(lines[-1][0], 3), f"...  RQ --- 34:092243 {ctl} --:------ 30C9 001 00"[1:])]
    try:
        A = GV.Runner(symbolic)
        for d, f in lines:
            A.feed(d, f)
        s1 = A.gwy.get_state()
        B = GV.Runner(symbolic)
        from ramses_rf import Gateway
        from ramses_rf.schemas import load_schema

        events._set_running_loop(B.loop)
        try:
            B.gwy = Gateway(None, input_file=open(os.devnull), loop=B.loop, config={"disable_discovery": True, "enforce_known_list": False}, **s1[0])
            load_schema(B.gwy, known_list=B.gwy._include, **B.gwy._schema)
        finally:
            events._set_running_loop(None)
        B.gwy._transport = B.tx
        B.tx.now = A.tx.now
        _run_coro(B, B.gwy._restore_cached_packets(dict(s1[1])))
        B.spin()
        s2 = B.gwy.get_state()
        ok = s1[0] == s2[0] and s1[1] == s2[1]
        detail = f"{len(s1[1])} packets" if ok else f"schema equal: {s1[0] == s2[0]} (orphans {s1[0].get('orphans_heat')}/{s1[0].get('orphans_hvac')} vs {s2[0].get('orphans_heat')}/{s2[0].get('orphans_hvac')}), packets equal: {s1[1] == s2[1]}"
        return (bname, ok, detail)
    except Exception as e:  # noqa: BLE001
        return (bname, False, f"{type(e).__name__}: {str(e)[:100]}")


def schema_clause_concrete():
    """plain executions (no solver): for every base history, a fresh gateway configured from the saved schema and
    restored from the saved packets reports the same schema and the same packets.  -> list of (base, ok, detail)"""
    return [_schema_one(b, n) for b, n in BASES_THOROUGH]
