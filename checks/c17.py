"""C17 - schedules survive the wire format: encode / fragment / decode is the identity.

The real ``full_sched_to_fragz`` -> ``fragz_to_full_sched`` (with ``_struct_pack/_struct_unpack``, the
82-character slicing, the day re-grouping loop, the time-of-day and setpoint formatting) run on a
symbolic weekly schedule: zone index, and per switch point the hour, the 5-minute slot and the
setpoint k/100 (k in 500..3500) or the on/off state are solver variables.  ``zlib`` is replaced by the
identity (an opaque bijection: only ``decompress(compress(x)) == x`` is assumed), so the blob the
fragmentation works on is the concatenation of the packed records.  Per path the solver shows the
schedule read back equals the schedule written, cell for cell, and that every fragment is at most
41 bytes.  The reassembly code (``Schedule._update_payload_set/_proc_payload_set``) is then fed the
fragment payloads in every order with repeats (selector per arrival): whenever it produces a
schedule it is the one written."""
from __future__ import annotations

import os
import types

from checks import common
from symx.runner import Query

PROPERTY = "C17"
LEVEL = "other"
EXPLANATION = __doc__
FUNCTIONS = ["ramses_tx.command:Command.set_schedule_fragment", "ramses_tx.parsers:parser_0404", "ramses_rf.system.schedule:full_sched_to_fragz", "ramses_rf.system.schedule:fragz_to_full_sched", "ramses_rf.system.schedule:_struct_pack", "ramses_rf.system.schedule:_struct_unpack",
             "ramses_rf.system.schedule:Schedule._update_payload_set", "ramses_rf.system.schedule:Schedule._proc_payload_set"]
BOUNDS = {"quick": {"schedule": "7 days x 1 and x 2 switch points; the hour, 5-minute slot and setpoint/on-off of the switch points of two days at a time symbolic (4 day pairs), zone 00..0F / DHW", "reassembly": "4 fragments, 4 arrivals drawn from them in any order with repeats (every sequence), one symbolic day"},
          "thorough": {"schedule": "7 days x 1..3 switch points", "reassembly": "6 arrivals"}}
OUTSIDE = ["zlib itself (C code): replaced by the identity; compression-dependent fragment counts and 'a mixed set does not decompress' are assumptions, not results", "the voluptuous schedule validators (the symbolic schedule is well-formed by construction)",
           "float setpoints: exact reals k/100 here; binary rounding of int(round(x*100)) was decided under C04 (schedule._struct_pack kernel)", "the write commands / parser_0404 of the fragments: C03 (set/get_schedule_fragment)"]
STUBS = ["zlib -> identity (compressobj().compress(b) = b, flush() = b'', decompress(b) = b)", "struct -> symx.stubs.SxStruct byte-layout model (differentially tested by selfcheck)"]
ASSUMPTIONS = ["zlib.decompress(zlib.compress(x)) == x"]
MIN_CONCLUSIVE_FRACTION = 0.8


class _ZlibId:
    """identity 'compression' that remembers the blobs it produced: decompress() of anything else (a
    mixture of fragments of two schedules) raises zlib.error - the stated assumption about zlib"""

    import zlib as _z

    error = _z.error
    produced: list = []  # per path: the record streams handed out by compressobj().flush()
    strict = False

    class _C:
        def __init__(self):
            self.parts = []

        def compress(self, b):
            self.parts.append(b)
            return b

        def flush(self):
            _ZlibId.produced.append([x for p in self.parts for x in list(p)])
            return b""

    class _Forced:
        """compressor whose output is a given blob (any bytes of a given length), whatever goes in"""

        def __init__(self):
            self.parts = []

        def compress(self, b):
            self.parts.append(b)
            return b""

        def flush(self):
            _ZlibId.forced_src = [x for p in self.parts for x in list(p)]
            return _ZlibId.force_blob

    force_blob = None
    forced_src = None

    @staticmethod
    def compressobj(*a, **k):
        return _ZlibId._Forced() if _ZlibId.force_blob is not None else _ZlibId._C()

    @staticmethod
    def decompress(b):
        if _ZlibId.forced_src is not None and _ZlibId.force_blob is not None and len(b) == len(_ZlibId.force_blob):
            if all(isinstance(x, int) for x in _ZlibId.forced_src):
                return bytes(_ZlibId.forced_src)
            from symx.strings import SymBytes

            return SymBytes(_ZlibId.forced_src)  # the forced blob stands for exactly these records
        if _ZlibId.strict:
            from symx import s_and, s_or

            data = list(b)
            alts = []
            for blob in _ZlibId.produced:
                if len(blob) == len(data):
                    alts.append(s_and(*[x == y for x, y in zip(data, blob)]) if data else True)
            ok = s_or(*alts) if alts else False
            if not (ok is True or (ok is not False and bool(ok))):
                raise _ZlibId.error("Error -3 while decompressing data (stub: not a blob this run produced)")
        return b


def setup(tier):
    common.install(struct_modules=("ramses_rf.system.schedule",), extra={"ramses_rf.system.schedule:post": {"zlib": _ZlibId}})
    import ramses_rf.system.schedule  # noqa: F401


def _mk_schedule(src, nsp, dhw, symdays=(0, 1, 2, 3, 4, 5, 6)):
    """well-formed weekly schedule; the switch points of ``symdays`` are symbolic (src = Sym) or read
    back from a counterexample (src = Cex), the other days carry fixed values"""
    from ramses_rf.system import schedule as S

    idx = "HW" if dhw == "HW" else ("00" if dhw else "0" + src.hexs("zone", 1))
    days = []
    for d in range(7):
        sps = []
        prev = None
        for j in range(nsp):
            if d in symdays:
                h = src.int(f"h{d}_{j}", 0, 23)
                m5 = src.int(f"m{d}_{j}", 0, 11)
                tod = h * 60 + m5 * 5
                if prev is not None:
                    src.assume_gt(tod, prev)
                prev = tod
                sp = {S.SZ_TIME_OF_DAY: src.hhmm(h, m5 * 5)}
                if dhw:
                    sp[S.SZ_ENABLED] = src.flag(f"on{d}_{j}")
                else:
                    sp[S.SZ_HEAT_SETPOINT] = src.grid(f"sp{d}_{j}", 500, 3500, 100)
            else:
                sp = {S.SZ_TIME_OF_DAY: f"{6 + 5 * j:02d}:{(5 * d + 10 * j) % 60:02d}"}
                if dhw:
                    sp[S.SZ_ENABLED] = bool((d + j) % 2)
                else:
                    sp[S.SZ_HEAT_SETPOINT] = (1600 + 37 * d + 211 * j) / 100
            sps.append(sp)
        days.append({S.SZ_DAY_OF_WEEK: d, S.SZ_SWITCHPOINTS: sps})
    return {S.SZ_ZONE_IDX: "00" if idx == "HW" else idx, S.SZ_SCHEDULE: days}


class Sym:
    def __init__(self, ctx):
        self.ctx = ctx

    def int(self, name, lo, hi):
        import symx

        return symx.sym_int(self.ctx, name, lo, hi)

    def grid(self, name, lo, hi, den):
        import symx

        return symx.sym_int(self.ctx, name, lo, hi) / den

    def hexs(self, name, n):
        import symx

        return symx.sym_hex(self.ctx, name, n)

    def flag(self, name):
        import symx

        return symx.flag(self.ctx, name)

    def assume_gt(self, a, b):
        self.ctx.assume((a > b).e)

    def hhmm(self, h, m):
        from symx.strings import sx_fstr

        return sx_fstr([(h, None, "02d"), ":", (m, None, "02d")]) if False else _fmt2(h) + ":" + _fmt2(m)


def _fmt2(v):
    from symx.strings import mk
    from symx.values import fmt_int_cells

    return mk(fmt_int_cells(v, "02d")) if not isinstance(v, int) else f"{v:02d}"


class Cex:
    def __init__(self, cex):
        self.cex = cex

    def int(self, name, lo, hi):
        return int(self.cex.get(name, lo))

    def grid(self, name, lo, hi, den):
        return int(self.cex.get(name, lo)) / den

    def hexs(self, name, n):
        return self.cex.get(name, "0" * n)

    def flag(self, name):
        return bool(self.cex.get(name, False))

    def assume_gt(self, a, b):
        pass

    def hhmm(self, h, m):
        return f"{h:02d}:{m:02d}"


def _same(a, b):
    from checks.decode import eq_struct

    return eq_struct(a, b)


def _check_same_schedule(ctx, got, want, label):
    """one obligation per field (keeps each solver query small)"""
    from ramses_rf.system import schedule as S

    ctx.check(_same(got.get(S.SZ_ZONE_IDX), want.get(S.SZ_ZONE_IDX)), label, info="zone_idx")
    gd, wd = got.get(S.SZ_SCHEDULE), want.get(S.SZ_SCHEDULE)
    if not isinstance(gd, list) or len(gd) != len(wd):
        ctx.check(False, label, info=f"{len(gd) if isinstance(gd, list) else gd} days")
        return
    for a, b in zip(gd, wd):
        ctx.check(a.get(S.SZ_DAY_OF_WEEK) == b.get(S.SZ_DAY_OF_WEEK), label, info="day_of_week")
        sa, sb = a.get(S.SZ_SWITCHPOINTS), b.get(S.SZ_SWITCHPOINTS)
        if len(sa) != len(sb):
            ctx.check(False, label, info="number of switch points")
            continue
        for x, y in zip(sa, sb):
            ctx.check(list(x.keys()) == list(y.keys()), label, info="switch point keys")
            for k in y:
                if k in x:
                    ctx.check(_same(x[k], y[k]), label, info=k)


def h_roundtrip(ctx, nsp, dhw, symdays=(0, 1, 2, 3, 4, 5, 6)):
    from ramses_rf.system import schedule as S

    sched = _mk_schedule(Sym(ctx), nsp, dhw, symdays)
    try:
        frags = S.full_sched_to_fragz(sched)
    except Exception as e:  # noqa: BLE001
        ctx.check(False, "C17:a-valid-schedule-is-encoded", info=type(e).__name__)
        return "encode-raised"
    ctx.check(all(len(f) <= 82 for f in frags) and all(len(f) % 2 == 0 for f in frags), "C17:every-fragment-fits-one-frame", info=[len(f) for f in frags])
    try:
        back = S.fragz_to_full_sched(frags)
    except Exception as e:  # noqa: BLE001
        ctx.check(False, "C17:own-fragments-decode", info=type(e).__name__)
        return "decode-raised"
    _check_same_schedule(ctx, back, sched, "C17:schedule-read-back-equals-schedule-written")
    return f"{len(frags)} fragments"


class _Sched:
    """stand-in self for Schedule._update_payload_set/_proc_payload_set"""

    def __init__(self, idx):
        from ramses_rf.system import schedule as S

        self.idx = idx
        self._full_schedule = None
        self._proc_payload_set = types.MethodType(S.Schedule._proc_payload_set, self)
        self._update_payload_set = types.MethodType(S.Schedule._update_payload_set, self)


def h_reassemble(ctx, nsp, k, symdays=(3,)):
    """fragments of one written schedule arriving in any order, with repeats"""
    import symx
    from ramses_rf.system import schedule as S

    sched = _mk_schedule(Sym(ctx), nsp, False, symdays)
    frags = S.full_sched_to_fragz(sched)
    n = len(frags)
    payloads = [{S.SZ_FRAG_NUMBER: i + 1, S.SZ_TOTAL_FRAGS: n, S.SZ_FRAGMENT: f, "frag_length": len(f) // 2} for i, f in enumerate(frags)]
    sc = _Sched(sched[S.SZ_ZONE_IDX])
    pset = []  # EMPTY_PAYLOAD_SET-like start
    seen = set()
    for step in range(k):
        i = symx.choice(ctx, f"arr{step}", list(range(n)))
        seen.add(i)
        try:
            pset = sc._update_payload_set(pset, dict(payloads[i]))
        except Exception as e:  # noqa: BLE001
            ctx.check(False, "C17:reassembly-never-raises", info=type(e).__name__)
            return "raised"
        if sc._full_schedule is not None:
            _check_same_schedule(ctx, sc._full_schedule, sched, "C17:reassembled-schedule-is-the-one-written-or-none")
        if len(seen) == n and None not in pset and len(pset) == n:
            ctx.check(sc._full_schedule is not None, "C17:complete-set-gives-the-schedule")
    return f"{n} frags, {len(seen)} seen"


def h_two_versions(ctx, k):
    """schedule A fully received, then the controller's schedule changes to B (same fragment count) and B's
    fragments arrive in any order: what is assembled in the end is B (or nothing) - never the stale A"""
    import symx
    from ramses_rf.system import schedule as S

    _ZlibId.produced, _ZlibId.strict = [], True
    try:
        A = _mk_schedule(Sym(ctx), 1, False, ())
        B = _mk_schedule(Sym(ctx), 1, False, (2,))
        fa, fb = S.full_sched_to_fragz(A), S.full_sched_to_fragz(B)
        n = len(fa)
        if len(fb) != n:
            return "different fragment counts"
        differs = symx.s_not(_same(B, A))
        if differs is False:
            return "same schedule"
        if differs is not True:
            ctx.assume(differs.e)
        mk = lambda fr: [{S.SZ_FRAG_NUMBER: i + 1, S.SZ_TOTAL_FRAGS: n, S.SZ_FRAGMENT: f, "frag_length": len(f) // 2} for i, f in enumerate(fr)]  # noqa: E731
        pa, pb = mk(fa), mk(fb)
        sc = _Sched(A[S.SZ_ZONE_IDX])
        pset = []
        for p in pa:
            pset = sc._update_payload_set(pset, dict(p))
        ctx.check(sc._full_schedule is not None, "C17:complete-set-gives-the-schedule")
        seen = set()
        for step in range(k):
            i = symx.choice(ctx, f"arr{step}", list(range(n)))
            seen.add(i)
            try:
                pset = sc._update_payload_set(pset, dict(pb[i]))
            except Exception as e:  # noqa: BLE001
                ctx.check(False, "C17:reassembly-never-raises", info=type(e).__name__)
                return "raised"
        if len(seen) == n:
            # every fragment of B has been received (A's are all older): the assembled schedule is B
            got = sc._full_schedule
            stale = got is not None and (_same(got, A) is True or (_same(got, A) is not False and bool(_same(got, A))))
            ctx.check(not stale, "C17:stale-schedule-not-kept-after-a-change")
        return f"{n} frags"
    finally:
        _ZlibId.strict = False


def h_fragcmd(ctx, flen):
    """every fragment length: the write command built from it, and the matching reply, are accepted by the decoder"""
    import symx
    from ramses_tx.command import Command
    from ramses_tx.message import Message
    from ramses_tx.packet import Packet

    frag = symx.sym_hex(ctx, "frag", 2 * flen)
    num = symx.choice(ctx, "num", [1, 2, 3])
    try:
        cmd = Command.set_schedule_fragment("01:145038", "01", num, 3, frag)
        msg = Message._from_cmd(cmd)
        ctx.check(D_eq(msg.payload.get("fragment"), frag), "C17:write-command-of-a-fragment-decodes-back")
    except Exception as e:  # noqa: BLE001
        ctx.check(False, "C17:write-command-of-a-fragment-is-accepted", info=type(e).__name__)
        return "rejected"
    rp = "045 RP --- 01:145038 18:006402 --:------ 0404 " + f"{7 + flen:03d}" + " 01200008" + f"{flen:02X}" + f"{num:02X}" + "03" + frag
    try:
        m2 = Message(Packet.from_file("2023-01-01T00:00:00.000000", rp))
        ctx.check(D_eq(m2.payload.get("fragment"), frag), "C17:reply-carrying-a-fragment-decodes-back")
    except Exception as e:  # noqa: BLE001
        ctx.check(False, "C17:reply-carrying-a-fragment-is-accepted", info=type(e).__name__)
    return "ok"


def h_slicing(ctx, L):
    """the fragmentation proper, for a compressed blob of L arbitrary bytes: fragments are non-empty, at most 41 bytes,
    ceil(L/41) of them, concatenate to the blob - and the write command of every fragment (numbered i of n as
    Schedule.set_schedule numbers them) is one the decoder accepts and reads back"""
    import symx
    from ramses_rf.system import schedule as S
    from ramses_tx.command import Command
    from ramses_tx.message import Message
    from symx.strings import SymBytes

    blob = SymBytes([symx.sym_int(ctx, f"b{i}", 0, 255) for i in range(L)])
    _ZlibId.force_blob = blob
    try:
        sched = _mk_schedule(Cex({}), 1, False, ())
        frags = S.full_sched_to_fragz(sched)
    finally:
        _ZlibId.force_blob = None
    n = len(frags)
    ctx.check(n == -(-L // 41), "C17:fragment-count-is-ceil-of-blob-length-over-41", info=f"{n} fragments for {L} bytes")
    ctx.check(all(2 <= len(f) <= 82 and len(f) % 2 == 0 for f in frags), "C17:every-fragment-is-1-to-41-bytes", info=str([len(f) // 2 for f in frags]))
    whole = frags[0]
    for f in frags[1:]:
        whole = whole + f
    ctx.check(D_eq(whole, blob.hex().upper()), "C17:fragments-concatenate-to-the-blob")
    for i, f in enumerate(frags):
        if i not in (0, n - 1):
            continue
        try:
            cmd = Command.set_schedule_fragment("01:145038", "01", i + 1, n, f)
            msg = Message._from_cmd(cmd)
        except Exception as e:  # noqa: BLE001
            ctx.check(False, "C17:write-command-of-a-fragment-is-accepted", info=f"fragment {i + 1}/{n} of {len(f) // 2} bytes: {type(e).__name__}")
            return "rejected"
        ctx.check(D_eq(msg.payload.get("fragment"), f) and msg.payload.get("total_frags") == n and msg.payload.get("frag_number") == i + 1, "C17:write-command-of-a-fragment-decodes-back", info=f"{i + 1}/{n}")
    return f"{n} fragments"


def _real_schedule_object(idx):
    """a Schedule as Schedule.__init__ leaves it (so that its initial fragment set is the real one)"""
    from ramses_rf.system import schedule as S

    zone = types.SimpleNamespace(id=f"01:145038_{idx}", idx=idx, ctl=types.SimpleNamespace(id="01:145038"), tcs=None, _gwy=None)
    sc = object.__new__(S.Schedule)
    S.Schedule.__init__(sc, zone)
    return sc


def run_single(sched, blob, check):
    """a schedule whose compressed form fits one fragment: received by a fresh Schedule object exactly as
    Schedule._get_schedule's loop does it; then another zone, which has no schedule, is asked"""
    from ramses_rf.system import schedule as S

    _ZlibId.force_blob, _ZlibId.forced_src = blob, None
    try:
        frags = S.full_sched_to_fragz(sched)
        if len(frags) != 1:
            return f"{len(frags)} fragments"
        payload = {S.SZ_FRAG_NUMBER: 1, S.SZ_TOTAL_FRAGS: 1, S.SZ_FRAGMENT: frags[0], "frag_length": len(frags[0]) // 2}
        sc = _real_schedule_object(sched[S.SZ_ZONE_IDX])
        sc._payload_set[0] = None  # as _get_schedule does before asking for the first fragment
        sc._payload_set = sc._update_payload_set(sc._payload_set, dict(payload))
        got = sc._full_schedule
        check(bool(got) and S.SZ_SCHEDULE in got, "C17:complete-set-gives-the-schedule", f"one-fragment schedule read back as {str(got)[:60]}")
        if got and S.SZ_SCHEDULE in got:
            _check_same_schedule(types.SimpleNamespace(check=check), got, sched, "C17:reassembled-schedule-is-the-one-written-or-none")
        # a zone without a schedule, asked afterwards: 'no schedule', and its own (empty) fragment set
        other = _real_schedule_object("0B")
        other._payload_set = other._update_payload_set(other._payload_set, {S.SZ_FRAG_NUMBER: 1, S.SZ_TOTAL_FRAGS: None, S.SZ_FRAGMENT: None, "frag_length": 0})
        check(other._full_schedule == {S.SZ_ZONE_IDX: "0B"} and other._payload_set == [None], "C17:a-zone-without-schedule-is-unaffected-by-another-zones-transfer",
              f"full_schedule {str(other._full_schedule)[:50]}, fragment set of {len(other._payload_set)}")
    finally:
        _ZlibId.force_blob, _ZlibId.forced_src = None, None
    return "ok"


def h_single(ctx, L):
    import symx
    from symx.strings import SymBytes

    sched = _mk_schedule(Sym(ctx), 1, False, (3,))
    blob = SymBytes([symx.sym_int(ctx, f"b{i}", 0, 255) for i in range(L)])
    return run_single(sched, blob, ctx.check)


def D_eq(a, b):
    from checks.decode import eq_struct

    return eq_struct(a, b)


def queries(tier, seed):
    thorough = tier == "thorough"
    qs = []
    for L in (range(1, 206) if thorough else (1, 2, 40, 41, 42, 81, 82, 83, 123, 124)):
        qs.append(Query(f"slicing[{L}]", lambda c, L=L: h_slicing(c, L), {"h": "slicing", "L": L}, group="slicing", max_secs=200, weight=2))
    for L in ((1, 20, 41) if not thorough else (1, 2, 10, 20, 30, 40, 41)):
        qs.append(Query(f"single-fragment[{L}]", lambda c, L=L: h_single(c, L), {"h": "single", "L": L}, group="reassemble", max_secs=200, weight=3))
    for flen in range(1, 42):
        qs.append(Query(f"fragcmd[{flen}]", lambda c, flen=flen: h_fragcmd(c, flen), {"h": "fragcmd", "flen": flen}, group="fragcmd", max_secs=200, weight=3))
    qs.append(Query("two-versions[k=4]", lambda c: h_two_versions(c, 4), {"h": "two", "k": 4}, group="reassemble", max_secs=600, max_paths=100_000, weight=15, split_depth=3))
    pairs = [(0, 1), (2, 3), (4, 5), (6, 0)] if not thorough else [(0, 1), (1, 2), (2, 3), (3, 4), (4, 5), (5, 6), (6, 0), (0, 3, 6)]
    for nsp in ((1, 2, 3) if thorough else (1, 2)):
        for dhw in (False, True):
            for sd in pairs:
                qs.append(Query(f"roundtrip[{nsp}sp|{'dhw' if dhw else 'zone'}|days{''.join(map(str, sd))}]", lambda c, a=(nsp, dhw, sd): h_roundtrip(c, *a), {"h": "roundtrip", "nsp": nsp, "dhw": dhw, "symdays": list(sd)}, group="roundtrip",
                                max_secs=900 if thorough else 240, max_paths=100_000, weight=10 * nsp))
    for k in ((5, 6) if thorough else (4,)):
        for sd in (((0,), (3,), (6,)) if thorough else ((3,),)):
            qs.append(Query(f"reassemble[k={k}|day{sd[0]}]", lambda c, a=(1, k, sd): h_reassemble(c, *a), {"h": "reassemble", "nsp": 1, "k": k, "symdays": list(sd)}, group="reassemble", max_secs=900 if thorough else 240, max_paths=100_000, weight=20, split_depth=3))

    def canary(c):
        from ramses_rf.system import schedule as S

        sched = _mk_schedule(Sym(c), 1, False, (0,))
        back = S.fragz_to_full_sched(S.full_sched_to_fragz(sched))
        c.check(_same(back["schedule"][0]["switchpoints"][0]["time_of_day"], "06:30"), "canary")

    qs.append(Query("canary:tod", canary, canary=True))
    only = os.environ.get("C17_ONLY")
    if only:
        qs = [q for q in qs if only in q.name or q.canary]
    return qs


def replay(item):
    """plain interpreter, uninstrumented package, REAL zlib"""
    common.plain_imports()
    from ramses_rf.system import schedule as S

    cex, prm, label = item["cex"], item["params"], item["label"]
    if prm["h"] == "fragcmd":
        from ramses_tx.command import Command
        from ramses_tx.message import Message
        from ramses_tx.packet import Packet

        flen, frag, num = prm["flen"], cex["frag"], int(cex.get("num", 1))
        bad = []
        try:
            m = Message._from_cmd(Command.set_schedule_fragment("01:145038", "01", num, 3, frag))
            if m.payload.get("fragment") != frag:
                bad.append(f"write decodes to {m.payload.get('fragment')}")
        except Exception as e:  # noqa: BLE001
            bad.append(f"write command rejected: {type(e).__name__}: {e}"[:160])
        rp = "045 RP --- 01:145038 18:006402 --:------ 0404 " + f"{7 + flen:03d}" + " 01200008" + f"{flen:02X}" + f"{num:02X}" + "03" + frag
        try:
            m2 = Message(Packet.from_file("2023-01-01T00:00:00.000000", rp))
            if m2.payload.get("fragment") != frag:
                bad.append(f"reply decodes to {m2.payload.get('fragment')}")
        except Exception as e:  # noqa: BLE001
            bad.append(f"reply rejected: {type(e).__name__}: {e}"[:160])
        return {"reproduced": bool(bad), "observed": f"fragment of {flen} byte(s) {frag}: " + "; ".join(bad), "signature": f"fragcmd: {label.split(':', 1)[1]}"}
    if prm["h"] == "slicing":
        import types as _t
        import zlib as _zl

        from ramses_tx.command import Command
        from ramses_tx.message import Message

        L = prm["L"]
        blob = bytes(int(cex.get(f"b{i}", 0)) for i in range(L))

        class _F:  # the compressor's output is the counterexample's blob
            def compress(self, b):
                return b""

            def flush(self):
                return blob

        real = S.zlib
        S.zlib = _t.SimpleNamespace(compressobj=lambda *a, **k: _F(), decompress=_zl.decompress, error=_zl.error)
        try:
            frags = S.full_sched_to_fragz(_mk_schedule(Cex({}), 1, False, ()))
        finally:
            S.zlib = real
        n, bad = len(frags), []
        if n != -(-L // 41):
            bad.append(f"{n} fragments for a blob of {L} bytes")
        if not all(2 <= len(f) <= 82 and len(f) % 2 == 0 for f in frags):
            bad.append(f"fragment sizes {[len(f) // 2 for f in frags]}")
        if "".join(frags) != blob.hex().upper():
            bad.append("fragments do not concatenate to the blob")
        for i, f in enumerate(frags):
            if i not in (0, n - 1):
                continue
            try:
                m = Message._from_cmd(Command.set_schedule_fragment("01:145038", "01", i + 1, n, f))
                if m.payload.get("fragment") != f or m.payload.get("total_frags") != n or m.payload.get("frag_number") != i + 1:
                    bad.append(f"write command of fragment {i + 1}/{n} decodes to {m.payload}")
            except Exception as e:  # noqa: BLE001
                bad.append(f"write command of fragment {i + 1}/{n} ({len(f) // 2} bytes) rejected: {type(e).__name__}: {e}"[:200])
        return {"reproduced": bool(bad), "observed": f"compressed blob of {L} bytes: " + "; ".join(bad), "signature": f"slicing: {label.split(':', 1)[1]}"}
    if prm["h"] == "single":
        sched = _mk_schedule(Cex(cex), 1, False, (3,))
        blob = bytes(int(cex.get(f"b{i}", 0)) for i in range(prm["L"]))
        failed = []

        def chk(cond, lab, info=None):
            if not cond:
                failed.append((lab, info))
            return bool(cond)

        real = S.zlib
        S.zlib = _ZlibId
        try:
            out = run_single(sched, blob, chk)
        finally:
            S.zlib = real
        info = next((i for l, i in failed if l == label), None)
        return {"reproduced": label in [l for l, _ in failed], "observed": f"schedule whose compressed form is one fragment of {prm['L']} bytes: {info}"[:400], "signature": f"reassemble: {label.split(':', 1)[1]} (one-fragment schedule)"}
    if prm["h"] == "two":
        A = _mk_schedule(Cex(cex), 1, False, ())
        B = _mk_schedule(Cex(cex), 1, False, (2,))
        fa, fb = S.full_sched_to_fragz(A), S.full_sched_to_fragz(B)
        if len(fa) != len(fb) or A == B:
            return {"reproduced": False, "observed": "fragment counts differ / same schedule with the real zlib", "signature": None}
        n = len(fa)
        mk = lambda fr: [{S.SZ_FRAG_NUMBER: i + 1, S.SZ_TOTAL_FRAGS: n, S.SZ_FRAGMENT: f, "frag_length": len(f) // 2} for i, f in enumerate(fr)]  # noqa: E731
        sc = _Sched(A[S.SZ_ZONE_IDX])
        pset = []
        for p in mk(fa):
            pset = sc._update_payload_set(pset, dict(p))
        order = [min(int(cex.get(f"arr{s}", 0)), n - 1) for s in range(prm["k"])]
        for i in order:
            pset = sc._update_payload_set(pset, dict(mk(fb)[i]))
        stale = set(order) == set(range(n)) and sc._full_schedule == A
        return {"reproduced": stale, "observed": f"A received, then B's fragments in order {order} (real zlib): assembled == A: {sc._full_schedule == A}, == B: {sc._full_schedule == B}", "signature": "reassemble: stale schedule kept after a change"}
    sched = _mk_schedule(Cex(cex), prm["nsp"], prm.get("dhw", False), tuple(prm.get("symdays", range(7))))
    frags = S.full_sched_to_fragz(sched)
    if prm["h"] == "roundtrip":
        bad = []
        if any(len(f) > 82 for f in frags):
            bad.append(f"fragment lengths {[len(f) for f in frags]}")
        try:
            back = S.fragz_to_full_sched(frags)
            if back != sched:
                diff = [(a, b) for a, b in zip(back["schedule"], sched["schedule"]) if a != b][:1]
                bad.append(f"read back differs: {diff}")
        except Exception as e:  # noqa: BLE001
            bad.append(f"own fragments do not decode: {type(e).__name__}: {e}")
        return {"reproduced": bool(bad), "observed": "; ".join(bad)[:600] or "round trip ok", "signature": f"roundtrip: {label.split(':', 1)[1]}"}
    n = len(frags)
    payloads = [{S.SZ_FRAG_NUMBER: i + 1, S.SZ_TOTAL_FRAGS: n, S.SZ_FRAGMENT: f, "frag_length": len(f) // 2} for i, f in enumerate(frags)]
    sc = _Sched(sched[S.SZ_ZONE_IDX])
    pset, bad = [], []
    order = [min(int(cex.get(f"arr{s}", 0)), n - 1) for s in range(prm["k"])]
    for i in order:
        try:
            pset = sc._update_payload_set(pset, dict(payloads[i]))
        except Exception as e:  # noqa: BLE001
            bad.append(f"raised {type(e).__name__}: {e}")
            break
        if sc._full_schedule is not None and sc._full_schedule != sched:
            bad.append("reassembled a different schedule")
    return {"reproduced": bool(bad), "observed": f"arrival order {order} of {n} fragments (real zlib): " + "; ".join(bad), "signature": f"reassemble: {label.split(':', 1)[1]}"}
