"""C16 (claimed at the storage-format and filter level) - saved state restores.

(a) storage format - for an arbitrary accepted packet (all eight frame fields symbolic as in C02) the
    textual form the snapshot stores, ``repr(pkt)[:26]`` -> ``repr(pkt)[27:]``, is read back by the real
    ``Packet.from_dict`` as an accepted packet whose stored form is the same text: snapshot -> restore ->
    snapshot is a fixpoint of the packet set, cell for cell (headers/contexts included).
(b) snapshot filter - the real ``Gateway.get_state`` (with the real pause/resume) over stored messages
    whose kind is a selector over the verb/code classes the statement distinguishes, whose ages are
    solver reals and with ``include_expired`` a solver Boolean: a stored message is in the snapshot iff
    the statement allows it - never a request, never a write other than a schedule fragment, nothing
    expired unless asked for - and every stored line is accepted again by the decoder.

(c) replay order - the real ``get_state`` over three live messages whose time stamps are any permutation
    of the order the message stores are iterated in, then the real ``_restore_cached_packets``: the dict
    reaches the replaying transport in time-stamp order (the order the source gateway saw the packets).

Equality of the schemas of two gateways and idempotence of restoring into a populated gateway need the
entity layer and are outside what is encoded."""
from __future__ import annotations

import os

from checks import c02, c13, common
from checks import gwstate as G
from symx.runner import Query

PROPERTY = "C16"
LEVEL = "other"
EXPLANATION = __doc__
FUNCTIONS = ["ramses_rf.gateway:Gateway.get_state", "ramses_rf.gateway:Gateway._restore_cached_packets", "ramses_tx.packet:Packet.__repr__", "ramses_tx.packet:Packet.from_dict", "ramses_tx.packet:Packet._partition", "ramses_tx.message:Message._expired", "ramses_tx.frame:Frame._hdr", "ramses_tx.frame:Frame._ctx"]
BOUNDS = {"quick": {"storage format": "payload n in {1, 3, 8, 24} bytes, 3 address shapes, all fields symbolic", "filter": "2 stored messages, each any of 12 verb/code kinds, ages solver reals in [0, 10^6] s", "order": "3 live messages, all 6 permutations of store order vs time order"},
          "thorough": {"storage format": "n in {1, 2, 3, 6, 8, 24, 48}", "filter": "3 stored messages"}}
OUTSIDE = ["equality of the schemas of the source and the restored gateway; restoring twice / into a populated gateway (entity layer)", "two stored packets with the same time stamp (the snapshot is keyed by it)", "the symbolic time stamp: a fixed one is used (dt.fromisoformat is C code)"]
STUBS = c13.STUBS[:2]
ASSUMPTIONS = []
MIN_CONCLUSIVE_FRACTION = 0.8


def setup(tier):
    c13.setup(tier)
    import ramses_tx.command  # noqa: F401


def h_format(ctx, n, shape):
    """snapshot text of an accepted packet -> from_dict -> same snapshot text"""
    from ramses_tx import exceptions as exc
    from ramses_tx.packet import Packet
    from symx.strings import sx_eq

    f = c02._fields(ctx, n, shape, amode="type")
    frame = c02._frame(f)
    try:
        pkt = Packet.from_file(c02.DTM, "045 " + frame)
    except (exc.PacketInvalid, ValueError):
        return "not-accepted"
    text = repr(pkt)
    key, val = text[:26], text[27:]
    ctx.check(sx_eq(key, c02.DTM), "C16:snapshot-key-is-the-time-stamp")
    try:
        back = Packet.from_dict(key, val)
    except (exc.PacketInvalid, ValueError) as e:
        ctx.check(False, "C16:stored-packet-is-accepted-on-restore", info=type(e).__name__)
        return "rejected-on-restore"
    text2 = repr(back)
    ctx.check(len(text2) == len(text) and sx_eq(text2, text), "C16:snapshot-restore-snapshot-is-a-fixpoint")
    ctx.check(sx_eq(str(back), frame), "C16:restored-packet-equals-the-stored-one")
    return "ok"


def allowed(tag, expired, include_expired):
    """the statement's filter: no requests; no writes other than schedule fragments; nothing expired unless asked"""
    verb, code = tag.split("-")
    if verb == "RQ":
        return False
    if verb == "W":
        return code == "0404" and (include_expired or not expired)
    if isinstance(expired, bool):
        return include_expired or not expired
    from symx import s_not, s_or

    return s_or(include_expired, s_not(expired)) if not isinstance(include_expired, bool) else (True if include_expired else s_not(expired))


def symx_not(x):
    if isinstance(x, bool):
        return not x
    from symx import s_not

    return s_not(x)


def run_filter(env, n):
    handler = lambda m: None  # noqa: E731
    msgs, tags = [], []
    for k in range(n):
        tag = env.choice(f"kind{k}", [t for t, _ in G.FRAMES])
        off = env.real(f"age{k}", 0, 1_000_000)
        msgs.append(G.mk_msg(dict(G.FRAMES)[tag], k, off, env.symbolic))
        tags.append(tag)
    inc = env.flag("include_expired")
    g = G.mk_gateway(handler, False, False, [G._Dev(msgs)])
    schema, pkts = g.get_state(include_expired=inc)
    return msgs, tags, inc, pkts


def oracle_filter(env, msgs, tags, inc, pkts):
    from ramses_tx.message import Message
    from ramses_tx.packet import Packet

    for k, (m, tag) in enumerate(zip(msgs, tags)):
        key = G.T0 % k
        present = key in pkts
        exp = m._expired
        ok = allowed(tag, exp, inc)
        # soundness (the statement): whatever is in the snapshot is allowed to be there
        if present:
            env.check(ok, "C16:snapshot-holds-only-what-the-statement-allows", info=f"{tag} present=True")
        # completeness, for plain live state only (a lost live I/RP would change the restored schema/state);
        # what the code chooses to drop among schedule fragments is not demanded
        verb, code = tag.split("-")
        if verb in ("I", "RP") and code != "0404" and not present:
            env.check(symx_not(ok), "C16:live-state-is-saved", info=f"{tag} present=False")
        if present:
            try:
                Message(Packet.from_dict(key, pkts[key]))
                env.check(True, "C16:stored-line-is-accepted-by-the-decoder")
            except Exception as e:  # noqa: BLE001
                env.check(False, "C16:stored-line-is-accepted-by-the-decoder", info=f"{tag}: {type(e).__name__}")


PERMS = ["012", "021", "102", "120", "201", "210"]
ORDER_KINDS = ["I-30C9", "RP-2349", "I-0008"]


def run_order(env):
    """snapshot by the real get_state -> the real _restore_cached_packets: the packets reach the replaying
    transport in the order the source gateway received them (by time stamp), whatever order the message
    stores are iterated in.  FileTransport._reader replays its dict in iteration order (decided under C01
    'stream') and the dispatcher's array-fragment merge depends on that order, so a snapshot replayed out
    of order does not rebuild the same set of packets."""
    from ramses_rf import gateway as GW
    from symx.vloop import VLoop, running

    perm = tuple(int(c) for c in env.choice("db_order", PERMS))
    msgs = [G.mk_msg(dict(G.FRAMES)[ORDER_KINDS[j]], perm[j], 1, env.symbolic) for j in range(3)]  # all live (1 s old)
    handler = lambda m: None  # noqa: E731
    g = G.mk_gateway(handler, False, False, [G._Dev(msgs)])
    schema, pkts = g.get_state(include_expired=env.flag("include_expired"))
    seen = []
    loop = VLoop(0)

    def protocol_factory(*a, **k):
        return object()

    async def transport_factory(protocol, *a, packet_dict=None, **k):
        seen.extend(list(packet_dict))

        class T:
            def get_extra_info(self, name, default=None):
                fut = loop.create_future()
                fut.set_result(None)
                return fut

        return T()

    g2 = G.mk_gateway(handler, False, False, [])
    saved = (GW.protocol_factory, GW.transport_factory)
    GW.protocol_factory, GW.transport_factory = protocol_factory, transport_factory
    try:
        with running(loop):
            task = loop.create_task(g2._restore_cached_packets(pkts))
        loop.run(until=task)
        task.result()
    finally:
        GW.protocol_factory, GW.transport_factory = saved
    env.check(len(seen) == 3, "C16:every-saved-packet-is-replayed", info=str(seen))
    env.check(seen == sorted(seen), "C16:snapshot-is-replayed-in-the-order-received", info=f"store order {perm} -> replayed {[x[17:19] for x in seen]}")
    return perm, seen


def h_order(ctx):
    env = c13.Env(ctx=ctx)
    run_order(env)
    return "ok"


def h_filter(ctx, n):
    env = c13.Env(ctx=ctx)
    out = run_filter(env, n)
    oracle_filter(env, *out)
    return len(out[3])


def queries(tier, seed):
    thorough = tier == "thorough"
    qs = []
    for n in ((1, 2, 3, 6, 8, 24, 48) if thorough else (1, 3, 8, 24)):
        for shape in (0, 1, 2):
            if not thorough and n == 24 and shape != 0:
                continue
            qs.append(Query(f"format[n={n}|s{shape}]", lambda c, a=(n, shape): h_format(c, *a), {"h": "format", "n": n, "shape": shape}, group="format", max_secs=600 if thorough else 200, max_paths=100_000, weight=n / 8 + 1, split_depth=6))
    for n in ((1, 2, 3) if thorough else (1, 2)):
        qs.append(Query(f"filter[n={n}]", lambda c, n=n: h_filter(c, n), {"h": "filter", "n": n}, group="filter", max_secs=600 if thorough else 200, max_paths=300_000, weight=4 * n, split_depth=6))

    qs.append(Query("order[n=3]", h_order, {"h": "order"}, group="order", max_secs=200, max_paths=1000, weight=1))

    def canary(c):
        env = c13.Env(ctx=c)
        msgs, tags, inc, pkts = run_filter(env, 1)
        env.check(len(pkts) == 1, "canary")  # false for requests / expired messages

    qs.append(Query("canary:filter", canary, canary=True))
    from checks import gwfix

    qs += gwfix.queries(tier)
    qs += gwfix.schema_queries(tier)
    only = os.environ.get("C16_ONLY")
    if only:
        qs = [q for q in qs if only in q.name or q.canary]
    return qs


def replay(item):
    common.plain_imports()
    prm, cex, label = item["params"], item["cex"], item["label"]
    if prm["h"] == "gwfix":
        from checks import gwfix

        return gwfix.replay(item)
    if prm["h"] == "gwfix-schema":
        from checks import gwfix

        return gwfix.replay_schema(item)
    if prm["h"] == "format":
        from ramses_tx import exceptions as exc
        from ramses_tx.packet import Packet

        f = c02._cfields(cex, prm["n"], prm["shape"])
        frame = c02._frame(f)
        try:
            pkt = Packet.from_file(c02.DTM, "045 " + frame)
        except (exc.PacketInvalid, ValueError) as e:
            return {"reproduced": False, "observed": f"{frame!r} not accepted: {e}", "signature": None}
        text = repr(pkt)
        bad = []
        try:
            back = Packet.from_dict(text[:26], text[27:])
            if repr(back) != text:
                bad.append(f"restored form {repr(back)!r}")
            if str(back) != frame:
                bad.append(f"restored frame {str(back)!r}")
        except (exc.PacketInvalid, ValueError) as e:
            bad.append(f"rejected on restore: {type(e).__name__}: {e}")
        return {"reproduced": bool(bad), "observed": f"stored {text!r}: " + "; ".join(bad), "signature": f"format: {label.split(':', 1)[1]}"}
    env = c13.Env(cex=cex)
    if prm["h"] == "order":
        perm, seen = run_order(env)
        failed = [(l, i) for l, i in env.failed if l == label]
        return {"reproduced": bool(failed), "observed": f"message stores iterated in time order {perm}: replayed as {seen} :: {failed[:1]}"[:500], "signature": f"order: {label.split(':', 1)[1]}"}
    out = run_filter(env, prm["n"])
    oracle_filter(env, *out)
    failed = [(l, i) for l, i in env.failed if l == label]
    tag = (failed[0][1] or "").split(" ")[0] if failed else ""
    kept313 = tag in ("I-313F", "RP-313F") and "present=True" in (failed[0][1] if failed else "")
    sig = "filter: an expired I|313F is always kept" if kept313 else f"filter: {label.split(':', 1)[1]} [{tag}]"
    return {"reproduced": bool(failed), "observed": f"stored {out[1]} ages {[float(m._gwy.off) for m in out[0]]} include_expired={out[2]} -> snapshot keys {sorted(out[3])} :: {failed[:1]}"[:600], "signature": sig}
