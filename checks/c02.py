"""C02 - frame text round-trips: parse then print is the identity, through logs too.

The real ``Frame.__init__/_validate/__repr__``, ``Packet.__init__/_partition/from_port/from_file/
from_dict/__str__``, ``Command.__init__/_from_attrs/from_attrs/from_cli/__str__``, ``pkt_addrs`` /
``id_to_address`` and the reader-side slicing of ``FileTransport._reader`` run on frames all of
whose fields are symbolic: verb (selector), sequence number (``---`` or three symbolic digits),
every digit of the address fields in each of the three legal address-set shapes, the four code
characters, the three length digits and 2n payload characters.  On every path on which the frame
is accepted the solver must show that the printed text equals the input text cell for cell, that
each field is preserved, and that ``int(len) == bytes(payload)``; a Command built from fields prints
those fields; the CLI short form equals the long form; annotations (`` < hint``, `` * err``,
`` # comment``) and RSSI do not disturb the frame; a log line composed the way the packet logger
composes it is read back by the replayer as an equal packet with the same time stamp."""
from __future__ import annotations

import os

from checks import common
from symx.runner import Query

PROPERTY = "C02"
LEVEL = "other"
EXPLANATION = __doc__
FUNCTIONS = [
    "ramses_tx.frame:Frame.__init__", "ramses_tx.frame:Frame._validate", "ramses_tx.frame:Frame.__repr__", "ramses_tx.packet:Packet.__init__", "ramses_tx.packet:Packet._validate",
    "ramses_tx.packet:Packet._partition", "ramses_tx.packet:Packet.from_port", "ramses_tx.packet:Packet.from_file", "ramses_tx.packet:Packet.from_dict", "ramses_tx.packet:Packet.__str__", "ramses_tx.packet:Packet.__repr__",
    "ramses_tx.command:Command.__init__", "ramses_tx.command:Command._from_attrs", "ramses_tx.command:Command.from_attrs", "ramses_tx.command:Command.from_cli", "ramses_tx.command:Command.__str__",
    "ramses_tx.address:pkt_addrs", "ramses_tx.address:id_to_address", "ramses_tx.address:Address.__init__", "ramses_tx.transport:FileTransport._reader", "ramses_tx.transport:_ReadTransport._frame_read",
]
BOUNDS = {
    "quick": {"payload bytes n": [1, 2, 3, 8, 24, 48], "address shapes": 3, "address digits": "all 8 digits of each device id symbolic", "annotations": "hint/err/comment of <= 4 symbolic printable chars (separator characters excluded)", "rssi": "3 symbolic chars"},
    "thorough": {"payload bytes n": "1..48", "address shapes": 3, "annotations": "<= 6 chars"},
}
OUTSIDE = ["the writer side of the packet log is C code (logging %-formatting, dt.fromtimestamp(dtm.timestamp())): for the symbolic queries the log line is composed in the harness the way _Logger.makeRecord/PKT_LOG_FMT compose it; the 'logwrite' query runs the real writer and reader on selector-chosen concrete time stamps (no symbolic values)",
           "hint texts containing '*'/'#' and error texts containing '#' (they would be a different annotation)", "payloads longer than 48 bytes (rejected by COMMAND_REGEX)"]
STUBS = ["log line = asctime(26) + ' ' + rssi + ' ' + frame + [' < ' hint] + [' * ' err] + [' # ' comment] (from logger.py)", "lru_cache of pkt_addrs/id_to_address bypassed for symbolic address text",
         "TextIOWrapper subclass yielding the symbolic line"]
ASSUMPTIONS = []
MIN_CONCLUSIVE_FRACTION = 0.8
DTM = "2023-01-01T00:00:00.000000"
VERBS = [" I", "RQ", "RP", " W"]


def setup(tier):
    common.install()
    import ramses_tx.command  # noqa: F401
    import ramses_tx.transport  # noqa: F401


ADDR_MODE = "all"  # "all": all 8 digits of a device id symbolic; "type": the 2 type digits + 2 number digits
DEFNUM = {"a": "145038", "b": "056789", "c": "234567"}


def _dev(ctx, name, mode=None):
    import symx

    mode = mode or ADDR_MODE
    t = symx.sym_digits(ctx, name + "t", 2)
    if mode == "all":
        return t + ":" + symx.sym_digits(ctx, name + "n", 6)
    return t + ":" + DEFNUM[name][:4] + symx.sym_digits(ctx, name + "n", 2)


def _fields(ctx, n, shape, sym_len=False, verb=None, seq=None, amode=None):
    """-> dict of the eight fields (symbolic), shape: 0 = 'a b --', 1 = 'a -- a', 2 = '-- -- a', 3 = 'a -- c'"""
    import symx

    global ADDR_MODE
    if amode:
        ADDR_MODE = amode
    verb = verb or symx.choice(ctx, "verb", VERBS)
    if seq is None:
        seqn = "---" if symx.flag(ctx, "noseq") else symx.sym_digits(ctx, "seqn", 3)
    else:
        seqn = "---" if seq == "---" else symx.sym_digits(ctx, "seqn", 3)
    a = _dev(ctx, "a")
    non = "--:------"
    if shape == 0:
        addrs = [a, _dev(ctx, "b"), non]
    elif shape == 1:
        addrs = [a, non, a]
    elif shape == 2:
        addrs = [non, non, a]
    else:
        addrs = [a, non, _dev(ctx, "c")]
    code = symx.sym_hex(ctx, "code", 4)
    ln = symx.sym_digits(ctx, "len", 3) if sym_len else f"{n:03d}"
    payload = symx.sym_hex(ctx, "p", 2 * n)
    return {"verb": verb, "seqn": seqn, "addrs": addrs, "code": code, "len": ln, "payload": payload}


def _frame(f):
    return f["verb"] + " " + f["seqn"] + " " + f["addrs"][0] + " " + f["addrs"][1] + " " + f["addrs"][2] + " " + f["code"] + " " + f["len"] + " " + f["payload"]


def _check_frame_obj(ctx, obj, f, frame, what):
    from symx import s_and
    from symx.strings import sx_eq

    printed = str(obj)
    ctx.check(len(printed) == len(frame) and sx_eq(printed, frame), f"C02:{what}:printed-text-equals-input")
    ctx.check(s_and(sx_eq(obj.verb, f["verb"]), sx_eq(obj.seqn, f["seqn"]), sx_eq(obj.code, f["code"]), sx_eq(obj.len_, f["len"]), sx_eq(obj.payload, f["payload"])), f"C02:{what}:fields-preserved")
    ctx.check(s_and(*[sx_eq(repr(x), y) for x, y in zip(obj._addrs, f["addrs"])]), f"C02:{what}:addresses-preserved")
    from symx.values import sx_int

    ctx.check(sx_int(obj.len_) * 2 == len(obj.payload), f"C02:{what}:length-field-is-the-byte-count")
    ctx.check(obj._len * 2 == len(obj.payload), f"C02:{what}:length-field-is-the-byte-count")


def h_frame(ctx, n, shape, sym_len, verb=None, seq=None, amode="all"):
    """parse as a received packet and as a command; print; compare"""
    from ramses_tx import exceptions as exc
    from ramses_tx.command import Command
    from ramses_tx.packet import Packet
    from datetime import datetime as _dt

    f = _fields(ctx, n, shape, sym_len, verb, seq, amode)
    frame = _frame(f)
    out = []
    try:
        pkt = Packet.from_port(_dt.fromisoformat(DTM), "045 " + frame)
        _check_frame_obj(ctx, pkt, f, frame, "packet")
        out.append("pkt-ok")
    except (exc.PacketInvalid, ValueError):  # ValueError: e.g. a 3220 frame too short for its msg id (see C01)
        out.append("pkt-invalid")
    try:
        cmd = Command(frame)
        _check_frame_obj(ctx, cmd, f, frame, "command")
        out.append("cmd-ok")
    except (exc.CommandInvalid, ValueError):
        out.append("cmd-invalid")
    # a structurally valid frame (three legal address shapes, distinct devices, matching length) is accepted by both
    if not sym_len:
        from symx.strings import sx_eq

        from symx import s_and

        # legal: the sender is a device (not the broadcast id 63:262142), a destination differs from it
        legal = symx_not(sx_eq(f["addrs"][0 if shape != 2 else 2], "63:262142"))
        if shape == 0:
            legal = s_and(legal, symx_not(sx_eq(f["addrs"][0], f["addrs"][1])))
        if n >= 3:  # (shape 3, 'a -- c' with any c incl. the broadcast id, is the first legal shape of pkt_addrs too)
            # (a received packet may still be refused by the array sanity checks of pkt_lifespan: not demanded)
            ctx.check(symx_implies(legal, "cmd-ok" in out), "C02:valid-frame-is-accepted")
    return ",".join(out)


def symx_not(x):
    from symx import s_not

    return s_not(x) if not isinstance(x, bool) else (not x)


def symx_implies(a, b):
    from symx import s_implies

    if isinstance(a, bool):
        return b if a else True
    return s_implies(a, b)


def h_attrs(ctx, n, shape):
    """Command._from_attrs / from_attrs print the fields they were given"""
    import symx
    from ramses_tx import exceptions as exc
    from ramses_tx.command import Command
    from symx.strings import sx_eq
    from symx.values import sx_int

    f = _fields(ctx, n, shape, amode="type")
    frame = _frame(f)
    seq_arg = None if f["seqn"] == "---" else (f["seqn"] if symx.flag(ctx, "seq_as_str") else sx_int(f["seqn"]))
    try:
        cmd = Command._from_attrs(f["verb"], f["code"], f["payload"], addr0=f["addrs"][0], addr1=f["addrs"][1], addr2=f["addrs"][2], seqn=seq_arg)
    except (exc.CommandInvalid, exc.PacketInvalid):
        return "rejected"
    _check_frame_obj(ctx, cmd, f, frame, "from-fields")
    if shape in (0, 1):
        # the convenience form: (from_id, dest_id) -> address set
        dest = f["addrs"][1] if shape == 0 else f["addrs"][0]
        try:
            c2 = Command.from_attrs(f["verb"], dest, f["code"], f["payload"], from_id=f["addrs"][0], seqn=seq_arg)
        except (exc.CommandInvalid, exc.PacketInvalid):
            return "rejected-2"
        if shape == 0:
            same = sx_eq(f["addrs"][0], f["addrs"][1])
            ctx.check(symx_implies(symx_not(same), sx_eq(str(c2), frame)), "C02:from-attrs:printed-text-equals-fields")
        else:
            ctx.check(sx_eq(str(c2), frame), "C02:from-attrs:printed-text-equals-fields")
    return "ok"


def h_cli(ctx, n, form):
    """the CLI short form equals the long form"""
    import symx
    from ramses_tx import exceptions as exc
    from ramses_tx.command import Command
    from symx.strings import sx_eq

    code = symx.sym_hex(ctx, "code", 4)
    payload = symx.sym_hex(ctx, "p", 2 * n)
    a, b, c = _dev(ctx, "a", "type"), _dev(ctx, "b", "type"), _dev(ctx, "c", "type")
    non, hgi = "--:------", "18:000730"
    seqn = symx.sym_digits(ctx, "seqn", 3) if form.endswith("+seq") else None
    verb = symx.choice(ctx, "verb", ["RQ", " I", " W", "RP"])
    form0 = form.split("+")[0]
    alt = None
    if form0 == "1":
        # a lone address: the property does not say which slots it fills - the code has two conventions (the
        # gateway as source, or the announcement shape for an I; the latter branch tests verb == ' I' after
        # split() has stripped the blank, so it is never taken): either is accepted, the address must be kept
        cli_addrs, want, alt = [a], [hgi, a, non], [non, non, a]
    elif form0 == "2same":
        cli_addrs, want = [a, a], [a, non, a]
    elif form0 == "2":
        ctx.assume(symx_not(sx_eq(a, b)).e if not isinstance(symx_not(sx_eq(a, b)), bool) else True)
        cli_addrs, want = [a, b], [a, b, non]
    else:
        cli_addrs, want = [a, non, c] if form0 == "3ac" else [non, non, c], None
        want = list(cli_addrs)
    pad = "  " if symx.flag(ctx, "wide") else " "
    addr_txt = cli_addrs[0]
    for x in cli_addrs[1:]:  # (not pad.join(): the built-in join would flatten the symbolic cells)
        addr_txt = addr_txt + pad + x
    cli = verb + pad + (seqn + " " if seqn else "") + addr_txt + pad + code + " " + payload
    try:
        cmd = Command.from_cli(cli)
    except (exc.CommandInvalid, exc.PacketInvalid):
        return "rejected"
    long_form = verb + " " + (seqn or "---") + " " + want[0] + " " + want[1] + " " + want[2] + " " + code + " " + f"{n:03d}" + " " + payload
    ok = len(str(cmd)) == len(long_form) and sx_eq(str(cmd), long_form)
    if alt is not None and verb == " I":
        from symx.values import s_or

        long_alt = verb + " " + (seqn or "---") + " " + alt[0] + " " + alt[1] + " " + alt[2] + " " + code + " " + f"{n:03d}" + " " + payload
        ok2 = len(str(cmd)) == len(long_alt) and sx_eq(str(cmd), long_alt)
        ok = (ok or ok2) if isinstance(ok, bool) or isinstance(ok2, bool) and (ok is True or ok2 is True) else s_or(ok, ok2)
    ctx.check(ok, "C02:cli:short-form-equals-long-form")
    return "ok"


def _annotation(ctx, name, k):
    """hint: anything but '*' and '#'; error text: anything but '#'; comment: anything (it is the tail)"""
    import symx

    return symx.sym_printable(ctx, name, k, exclude={"hint": "*#", "err": "#"}.get(name, "")) if k else ""


def h_annot(ctx, n, kh, ke, kc, via):
    """RSSI and ' < hint', ' * err', ' # comment' annotations do not disturb the frame"""
    import symx
    from datetime import datetime as _dt
    from ramses_tx import exceptions as exc
    from ramses_tx.packet import Packet
    from symx.strings import sx_eq

    f = _fields(ctx, n, 0, verb=" I", seq="---", amode="type")
    frame = _frame(f)
    rssi = symx.sym_chars(ctx, "rssi", 3, allowed="0123456789.")
    hint, err, comment = _annotation(ctx, "hint", kh), _annotation(ctx, "err", ke), _annotation(ctx, "comment", kc)
    line = rssi + " " + frame + (" < " + hint if kh else "") + (" * " + err if ke else "") + (" # " + comment if kc else "")
    try:
        if via == "port":
            pkt = Packet.from_port(_dt.fromisoformat(DTM), line)
        elif via == "dict":
            pkt = Packet.from_dict(DTM, line)
        else:
            pkt = Packet.from_file(DTM, line)
    except exc.PacketInvalid:
        if ke and via != "dict":
            blank = err.strip() if hasattr(err, "strip") else err
            ctx.check(True, "C02:annot:error-annotation-rejects-the-packet")
            return "rejected(err)"
        return "rejected"
    except ValueError:
        return "valueerror"
    _check_frame_obj(ctx, pkt, f, frame, "annotated")
    ctx.check(sx_eq(pkt._rssi, rssi), "C02:annot:rssi-preserved")
    if kc:
        ctx.check(sx_eq(pkt.comment, comment.strip()), "C02:annot:comment-preserved")
    return "ok"


def h_log(ctx, n, kc):
    """a log line composed as the packet logger composes it is replayed as an equal packet, same time stamp"""
    import io
    import types

    import symx
    from ramses_tx import transport as T
    from symx.strings import sx_eq
    from symx.vloop import VLoop

    f = _fields(ctx, n, 0, verb="RP", seq="sym", amode="type")
    frame = _frame(f)
    rssi = symx.sym_chars(ctx, "rssi", 3, allowed="0123456789.")
    stamp = "2023-" + symx.sym_chars(ctx, "mon", 1, allowed="01") + symx.sym_digits(ctx, "mon2", 1) + "-1" + symx.sym_digits(ctx, "day", 1) + "T1" + symx.sym_digits(ctx, "hms", 1) + ":3" + symx.sym_digits(ctx, "m2", 1) + ":5" + symx.sym_digits(ctx, "s2", 1) + "." + symx.sym_digits(ctx, "us", 6)
    comment = _annotation(ctx, "comment", kc)
    line = stamp + " " + rssi + " " + frame + (" # " + comment if kc else "") + "\n"
    got = []

    class _Log(io.TextIOWrapper):
        def __init__(self, lines):
            super().__init__(io.BytesIO(b""))
            self._lines = lines

        def __iter__(self):
            return iter(self._lines)

    class _Tx:
        _reading = True
        _closing = False

    tx = _Tx()
    tx._pkt_source = _Log([line])
    tx.loop = tx._loop = loop = VLoop(0)
    tx._frame_read = types.MethodType(T._ReadTransport._frame_read, tx)
    tx._pkt_read = lambda pkt: got.append(pkt)
    task = loop.create_task(T.FileTransport._reader(tx))
    loop.run(until=task)
    if task.exception() is not None:
        raise task.exception()
    if not got:
        return "not-delivered"
    pkt = got[0]
    _check_frame_obj(ctx, pkt, f, frame, "replayed")
    ctx.check(sx_eq(pkt._rssi, rssi), "C02:log:rssi-preserved")
    iso = pkt.dtm.isoformat(timespec="microseconds")
    ctx.check(sx_eq(iso, stamp), "C02:log:same-timestamp")
    return "ok"


def run_logwrite(choice, flag):
    """the writer side, for real: Packet() logs itself through PKT_LOGGER (_Logger.makeRecord, _Formatter.formatTime,
    PKT_LOG_FMT) with the packet time as the log time source; the captured line is read back by the real
    FileTransport._reader.  Time-stamp fields and annotations are selectors (C code: nothing symbolic here)."""
    import asyncio
    import io
    import logging
    import types
    from datetime import datetime as _dt

    from ramses_tx import logger as LG
    from ramses_tx import packet as PK
    from ramses_tx import transport as T

    us = choice("microsecond", [0, 1000, 123456, 500000, 999999])
    sec = choice("second", [0, 7, 59])
    dtm = _dt(2023, 3, 5, 14, 9, sec, us)
    comment = " # a comment" if flag("with_comment") else ""
    frame = "045  I --- 01:145038 --:------ 01:145038 30C9 003 0007D0"
    captured = []

    class H(logging.Handler):
        def emit(self, record):
            captured.append(self.format(record))

    h = H()
    h.setFormatter(LG.Formatter(fmt=LG.PKT_LOG_FMT + LG.BANDW_SUFFIX))
    old_factory, old_disable, old_level = logging.getLogRecordFactory(), logging.root.manager.disable, PK.PKT_LOGGER.level
    LG.set_logger_timesource(lambda: dtm)
    logging.disable(logging.NOTSET)
    PK.PKT_LOGGER.addHandler(h)
    PK.PKT_LOGGER.setLevel(logging.DEBUG)
    try:
        pkt = PK.Packet.from_port(dtm, frame + comment)
    finally:
        PK.PKT_LOGGER.removeHandler(h)
        PK.PKT_LOGGER.setLevel(old_level)
        logging.setLogRecordFactory(old_factory)
        logging.disable(old_disable)
    if not captured:
        return dtm, pkt, None, None
    line = captured[0]
    got = []

    class _Tx:
        _reading = True
        _closing = False

    async def go():
        tx = _Tx()
        tx._pkt_source = io.TextIOWrapper(io.BytesIO((line + "\n").encode("latin-1")), encoding="latin-1")
        tx.loop = tx._loop = asyncio.get_running_loop()
        tx._frame_read = types.MethodType(T._ReadTransport._frame_read, tx)
        tx._pkt_read = lambda p: got.append(p)
        await T.FileTransport._reader(tx)

    loop = asyncio.new_event_loop()
    try:
        loop.run_until_complete(go())
    finally:
        loop.close()
    return dtm, pkt, line, (got[0] if got else None)


def _logwrite_problems(dtm, pkt, line, back):
    if line is None:
        return ["nothing was written to the packet log"]
    if back is None:
        return [f"log line {line!r} is not replayed"]
    bad = []
    if str(back) != str(pkt):
        bad.append(f"replayed frame {str(back)!r}")
    if back.dtm != dtm:
        bad.append(f"replayed time stamp {back.dtm.isoformat()} (written for {dtm.isoformat()}, line {line[:26]!r})")
    if (back.comment or "") != (pkt.comment or ""):
        bad.append(f"comment {back.comment!r}")
    return bad


def h_logwrite(ctx):
    import symx

    dtm, pkt, line, back = run_logwrite(lambda n, o: symx.choice(ctx, n, o), lambda n: symx.flag(ctx, n))
    bad = _logwrite_problems(dtm, pkt, line, back)
    ctx.check(not bad, "C02:log:written-packet-is-replayed-equal-with-the-same-timestamp", info="; ".join(bad)[:200])
    return "ok" if not bad else "differs"


# ------------------------------------------------------------------------------------------


def queries(tier, seed):
    thorough = tier == "thorough"
    ns = list(range(1, 49)) if thorough else [1, 2, 3, 8, 24, 48]
    qs = []
    k = 0
    for n in ns:
        for shape in (0, 1, 2, 3):
            small = n <= 3
            verb, seq, amode = (None, None, "all") if (small or thorough) and n <= 8 else (VERBS[k % 4], ("sym", "---")[(k // 4) % 2], "type")
            k += 1
            prm = {"h": "frame", "n": n, "shape": shape, "sym_len": False, "verb": verb, "seq": seq, "amode": amode}
            qs.append(Query(f"frame[n={n}|s{shape}|{amode}]", lambda c, a=(n, shape, False, verb, seq, amode): h_frame(c, *a), prm, group="frame", max_secs=600, max_paths=100_000, weight=n / 10 + (6 if amode == "all" else 1),
                            split_depth=(6 if amode == "all" else None)))
    for n in ((1, 3, 24) if not thorough else (1, 2, 3, 8, 24, 48)):
        for shape in (0, 1):
            verb = VERBS[(n + shape) % 4]
            prm = {"h": "frame", "n": n, "shape": shape, "sym_len": True, "verb": verb, "seq": "---", "amode": "type"}
            qs.append(Query(f"frame[n={n}|s{shape}|len=sym]", lambda c, a=(n, shape, True, verb, "---", "type"): h_frame(c, *a), prm, group="frame", max_secs=600, max_paths=100_000, weight=2))
    for n in (ns if thorough else [1, 3, 24, 48]):
        for shape in (0, 1, 2, 3):
            qs.append(Query(f"attrs[n={n}|s{shape}]", lambda c, a=(n, shape): h_attrs(c, *a), {"h": "attrs", "n": n, "shape": shape}, group="attrs", max_secs=300, weight=n / 10 + 1))
    for n in ((1, 2, 8, 24, 48) if thorough else (1, 24)):
        for form in ("1", "2same", "2", "3ac", "3c", "1+seq", "2+seq", "3ac+seq"):
            qs.append(Query(f"cli[n={n}|{form}]", lambda c, a=(n, form): h_cli(c, *a), {"h": "cli", "n": n, "form": form}, group="cli", max_secs=300, weight=2))
    K = 6 if thorough else 3
    for via in ("file", "port", "dict"):
        shapes_ = ((0, 0, 0), (0, 0, K), (K, 0, 0), (0, K, 0), (2, 0, 2), (2, 2, 2)) if thorough else (((0, 0, 0), (0, 0, K), (K, 0, 0), (0, K, 0), (1, 1, 1)) if via == "file" else ((0, 0, K),))
        for kh, ke, kc in shapes_:
            qs.append(Query(f"annot[{via}|h{kh}e{ke}c{kc}]", lambda c, a=(2, kh, ke, kc, via): h_annot(c, *a), {"h": "annot", "n": 2, "kh": kh, "ke": ke, "kc": kc, "via": via}, group="annot", max_secs=600, max_paths=100_000, weight=5 + kh + ke + kc,
                            split_depth=6))
    for n in ((1, 8, 48) if thorough else (1, 8)):
        for kc in (0, 3):
            qs.append(Query(f"log[n={n}|c{kc}]", lambda c, a=(n, kc): h_log(c, *a), {"h": "log", "n": n, "kc": kc}, group="log", max_secs=600, max_paths=100_000, weight=6))

    qs.append(Query("logwrite", h_logwrite, {"h": "logwrite"}, group="log", max_secs=120, weight=1))

    def canary(c):
        from ramses_tx.command import Command
        from symx.strings import sx_eq

        f = _fields(c, 1, 0)
        cmd = Command(_frame(f))
        c.check(sx_eq(cmd.seqn, "---"), "canary")  # false when a numeric sequence number was given

    qs.append(Query("canary:seqn", canary, canary=True))
    only = os.environ.get("C02_ONLY")
    if only:
        qs = [q for q in qs if only in q.name or q.canary]
    return qs


# ------------------------------------------------------------------------------------------


def _cdev(cex, k):
    n = cex.get(k + "n", "000000")
    return cex.get(k + "t", "01") + ":" + (n if len(n) == 6 else DEFNUM[k][:4] + n)


def _cfields(cex, n, shape, sym_len=False, verb=None, seq=None):
    verb = verb or cex.get("verb", " I")
    if seq is None:
        seqn = "---" if cex.get("noseq") else cex.get("seqn", "000")
    else:
        seqn = "---" if seq == "---" else cex.get("seqn", "000")
    a = _cdev(cex, "a")
    non = "--:------"
    dev = lambda k: _cdev(cex, k)  # noqa: E731
    addrs = {0: [a, dev("b"), non], 1: [a, non, a], 2: [non, non, a], 3: [a, non, dev("c")]}[shape]
    ln = cex.get("len", f"{n:03d}") if sym_len else f"{n:03d}"
    return {"verb": verb, "seqn": seqn, "addrs": addrs, "code": cex["code"], "len": ln, "payload": cex["p"]}


def _cmp_obj(obj, f, frame):
    bad = []
    if str(obj) != frame:
        bad.append(f"prints {str(obj)!r}")
    for k, want in (("verb", f["verb"]), ("seqn", f["seqn"]), ("code", f["code"]), ("len_", f["len"]), ("payload", f["payload"])):
        if getattr(obj, k) != want:
            bad.append(f"{k}={getattr(obj, k)!r}")
    if [repr(x) for x in obj._addrs] != f["addrs"]:
        bad.append(f"addrs={[repr(x) for x in obj._addrs]}")
    if int(obj.len_) * 2 != len(obj.payload) or obj._len * 2 != len(obj.payload):
        bad.append("length field != byte count")
    return bad


def replay(item):
    common.plain_imports()
    from datetime import datetime as _dt

    from ramses_tx import exceptions as exc
    from ramses_tx.command import Command
    from ramses_tx.packet import Packet

    cex, prm, label = item["cex"], item["params"], item["label"]
    h = prm["h"]
    bad, desc = [], ""
    if h == "logwrite":
        def ch(n, o):
            v = cex.get(n)
            return next((x for x in o if x == v or str(x) == str(v)), o[0])

        dtm, pkt, line, back = run_logwrite(ch, lambda n: bool(cex.get(n, False)))
        bad = _logwrite_problems(dtm, pkt, line, back)
        return {"reproduced": bool(bad), "observed": f"packet at {dtm.isoformat()} -> log line {line!r}: " + "; ".join(bad), "signature": "log: written-packet-is-replayed-equal-with-the-same-timestamp"}
    if h == "frame":
        f = _cfields(cex, prm["n"], prm["shape"], prm["sym_len"], prm.get("verb"), prm.get("seq"))
        frame = _frame(f)
        desc = repr(frame)
        acc = []
        try:
            pkt = Packet.from_port(_dt.fromisoformat(DTM), "045 " + frame)
            acc.append("pkt")
            bad += ["packet " + b for b in _cmp_obj(pkt, f, frame)]
        except (exc.PacketInvalid, ValueError):
            pass
        try:
            cmd = Command(frame)
            acc.append("cmd")
            bad += ["command " + b for b in _cmp_obj(cmd, f, frame)]
        except (exc.CommandInvalid, ValueError):
            pass
        if label.endswith("valid-frame-is-accepted") and "cmd" not in acc:
            bad.append(f"structurally valid frame accepted only by {acc}")
    elif h == "attrs":
        f = _cfields(cex, prm["n"], prm["shape"])
        frame = _frame(f)
        desc = repr(frame)
        seq_arg = None if f["seqn"] == "---" else (f["seqn"] if cex.get("seq_as_str") else int(f["seqn"]))
        try:
            cmd = Command._from_attrs(f["verb"], f["code"], f["payload"], addr0=f["addrs"][0], addr1=f["addrs"][1], addr2=f["addrs"][2], seqn=seq_arg)
            bad += _cmp_obj(cmd, f, frame)
            if prm["shape"] in (0, 1):
                dest = f["addrs"][1] if prm["shape"] == 0 else f["addrs"][0]
                c2 = Command.from_attrs(f["verb"], dest, f["code"], f["payload"], from_id=f["addrs"][0], seqn=seq_arg)
                if str(c2) != frame and not (prm["shape"] == 0 and f["addrs"][0] == f["addrs"][1]):
                    bad.append(f"from_attrs prints {str(c2)!r}")
        except (exc.CommandInvalid, exc.PacketInvalid) as e:
            return {"reproduced": False, "observed": f"{desc}: rejected {e}", "signature": None}
    elif h == "cli":
        n, form = prm["n"], prm["form"]
        a, b, c = _cdev(cex, "a"), _cdev(cex, "b"), _cdev(cex, "c")
        non, hgi = "--:------", "18:000730"
        seqn = cex.get("seqn") if form.endswith("+seq") else None
        verb = cex.get("verb", "RQ")
        form0 = form.split("+")[0]
        alt = None
        if form0 == "1":
            cli_addrs, want, alt = [a], [hgi, a, non], ([non, non, a] if verb == " I" else None)
        elif form0 == "2same":
            cli_addrs, want = [a, a], [a, non, a]
        elif form0 == "2":
            cli_addrs, want = [a, b], [a, b, non]
        else:
            cli_addrs = [a, non, c] if form0 == "3ac" else [non, non, c]
            want = list(cli_addrs)
        pad = "  " if cex.get("wide") else " "
        cli = verb + pad + (seqn + " " if seqn else "") + pad.join(cli_addrs) + pad + cex["code"] + " " + cex["p"]
        desc = repr(cli)
        try:
            cmd = Command.from_cli(cli)
        except (exc.CommandInvalid, exc.PacketInvalid) as e:
            return {"reproduced": False, "observed": f"{desc}: rejected {e}", "signature": None}
        long_form = verb + " " + (seqn or "---") + " " + " ".join(want) + " " + cex["code"] + " " + f"{n:03d}" + " " + cex["p"]
        long_alt = None if alt is None else verb + " " + (seqn or "---") + " " + " ".join(alt) + " " + cex["code"] + " " + f"{n:03d}" + " " + cex["p"]
        if str(cmd) not in (long_form, long_alt):
            bad.append(f"prints {str(cmd)!r}, long form is {long_form!r}")
    elif h in ("annot", "log"):
        f = _cfields(cex, prm["n"], 0, False, *((" I", "---") if h == "annot" else ("RP", "sym")))
        frame = _frame(f)
        rssi = cex.get("rssi", "045")
        if h == "annot":
            hint, err, comment = cex.get("hint", ""), cex.get("err", ""), cex.get("comment", "")
            line = rssi + " " + frame + (" < " + hint if prm["kh"] else "") + (" * " + err if prm["ke"] else "") + (" # " + comment if prm["kc"] else "")
            desc = repr(line)
            try:
                if prm["via"] == "port":
                    pkt = Packet.from_port(_dt.fromisoformat(DTM), line)
                elif prm["via"] == "dict":
                    pkt = Packet.from_dict(DTM, line)
                else:
                    pkt = Packet.from_file(DTM, line)
            except (exc.PacketInvalid, ValueError) as e:
                return {"reproduced": False, "observed": f"{desc}: rejected {e}", "signature": None}
            bad += _cmp_obj(pkt, f, frame)
            if pkt._rssi != rssi:
                bad.append(f"rssi {pkt._rssi!r}")
            if prm["kc"] and pkt.comment != comment.strip():
                bad.append(f"comment {pkt.comment!r}")
        else:
            import asyncio
            import io
            import types

            from ramses_tx import transport as T

            stamp = "2023-" + cex["mon"] + cex["mon2"] + "-1" + cex["day"] + "T1" + cex["hms"] + ":3" + cex["m2"] + ":5" + cex["s2"] + "." + cex["us"]
            comment = cex.get("comment", "")
            line = stamp + " " + rssi + " " + frame + (" # " + comment if prm["kc"] else "") + "\n"
            desc = repr(line)
            got = []

            class _Tx:
                _reading = True
                _closing = False

            async def go():
                tx = _Tx()
                tx._pkt_source = io.TextIOWrapper(io.BytesIO(line.encode("latin-1")), encoding="latin-1")
                tx.loop = tx._loop = asyncio.get_running_loop()
                tx._frame_read = types.MethodType(T._ReadTransport._frame_read, tx)
                tx._pkt_read = lambda pkt: got.append(pkt)
                await T.FileTransport._reader(tx)

            try:
                asyncio.run(go())
            except Exception as e:  # noqa: BLE001
                return {"reproduced": False, "observed": f"{desc}: reader raised {type(e).__name__}: {e}", "signature": None}
            if not got:
                return {"reproduced": False, "observed": f"{desc}: not delivered", "signature": None}
            pkt = got[0]
            bad += _cmp_obj(pkt, f, frame)
            if pkt._rssi != rssi:
                bad.append(f"rssi {pkt._rssi!r}")
            if pkt.dtm.isoformat(timespec="microseconds") != stamp:
                bad.append(f"timestamp {pkt.dtm.isoformat(timespec='microseconds')}")
    return {"reproduced": bool(bad), "observed": f"{desc}: " + "; ".join(bad), "signature": f"{h}: {label.split(':', 1)[1]}"}
