"""Shared harness family for C01 (reception is total) and C05 (decoded payloads).

The real ``Packet.from_file/from_port/from_dict`` + ``Message(pkt)`` (COMMAND_REGEX, pkt_addrs,
pkt_lifespan, Frame._has_array/_pkt_idx/_has_ctl, _check_msg_payload with the per-code regex,
parse_payload and the per-code parser with every helper it calls) run on frame lines in which a
part is symbolic:

* ``full``  - the whole payload (2n hex characters) and the device-type digits of the addresses;
* ``win``   - a window of W hex characters of a payload taken from the repository's own packet logs
              (every offset of every selected base payload), i.e. *all payloads within one W/2-byte
              edit of a logged one*;
* ``field`` - one header field at a time (verb, seqn, each address, code, length, rssi) replaced by
              arbitrary printable ASCII of the same width and of width +-1;
* ``array`` - an m-element array of an array-capable code, fully symbolic.
"""
from __future__ import annotations

import os
import re
from collections import defaultdict
from functools import lru_cache

DTM = "2023-01-01T00:00:00.000000"
FRAME_RE = re.compile(r"^(.{3} .. ... \S+ \S+ \S+ \S{4} \d{3} )([0-9A-F]+)(.*)$")
REPO = os.environ.get("SYMX_REPO", "/repo")

# element length (bytes) of the array-capable codes: written from the protocol description, not
# read from the code's CODES_WITH_ARRAYS
ARRAY_ELEM = {"0009": 3, "000A": 6, "2309": 3, "30C9": 3, "2249": 7, "22C9": 6, "3150": 2}
ARRAY_SRC = {"0009": "01", "000A": "01", "2309": "01", "30C9": "01", "2249": "23", "22C9": "02", "3150": "02"}
IDX_KEYS = ("zone_idx", "domain_id", "dhw_idx", "ufh_idx")
# keys whose value is a ratio (decoded by hex_to_percent)
RATIO_KEYS = {
    "air_quality", "battery_level", "bypass_position", "heat_demand", "relay_demand", "vent_demand", "indoor_humidity", "outdoor_humidity",
    "modulation_level", "max_rel_modulation", "percent_remaining", "exhaust_fan_speed", "supply_fan_speed", "post_heat", "pre_heat", "valve_position",
    "relay_failsafe", "rel_modulation_level", "fan_rate",
}
TEMP_KEYS = {"temperature", "setpoint", "min_temp", "max_temp"}
TEMP_LO, TEMP_HI = -327.68, 327.67
# codes whose index is *derived* from other payload bytes (zone type/role), not carried as payload[:2]
IDX_DERIVED = {"0005", "000C", "0404", "0418", "3220", "1FC9"}


@lru_cache(maxsize=1)
def corpus():
    """{(verb, code): [(head, payload, tail)]} from /repo/tests/tests/**/*.log (distinct payload lengths first)."""
    from symx.selfcheck import collect_lines

    by = defaultdict(list)
    for dtm, fr in collect_lines():
        m = FRAME_RE.match(fr)
        if not m:
            continue
        head, pay, tail = m.groups()
        if tail.strip():
            continue
        by[(head[4:6], head[41:45])].append((head, pay, ""))
    out = {}
    for k, v in by.items():
        seen, first, rest = set(), [], []
        for h, p, t in sorted(v, key=lambda x: (len(x[1]), x[0], x[1])):
            (first if len(p) not in seen else rest).append((h, p, t))
            seen.add(len(p))
        out[k] = first + rest
    return out


def decodes_ok(head, pay, tail=""):
    """concrete decode with the (instrumented) package - used to select base frames"""
    from ramses_tx.message import Message
    from ramses_tx.packet import Packet

    try:
        Message(Packet.from_file(DTM, head + pay + tail))
        return True
    except Exception:  # noqa: BLE001
        return False


# ----------------------------------------------------------------------------------------------
# oracles


def decode_c01(ctx, line, via="file", dtm=DTM):
    """-> (outcome, msg|None).  Obligation: only the invalid-packet error (or ValueError from the
    Packet factory) may leave the decode path."""
    from datetime import datetime as _dt

    from ramses_tx import exceptions as exc
    from ramses_tx.message import Message
    from ramses_tx.packet import Packet

    try:
        if via == "port":
            pkt = Packet.from_port(_dt.fromisoformat(dtm), line)
        elif via == "dict":
            pkt = Packet.from_dict(dtm, line)
        else:
            pkt = Packet.from_file(dtm, line)
    except exc.PacketInvalid:
        ctx.check(True, "C01:packet-rejected-cleanly")
        return "pkt-invalid", None
    except ValueError:
        ctx.check(True, "C01:packet-rejected-cleanly")
        return "pkt-valueerror", None
    except Exception as e:  # noqa: BLE001
        ctx.check(False, "C01:packet-factory-raises-only-invalid-packet", info=type(e).__name__)
        return "pkt-" + type(e).__name__, None
    try:
        msg = Message(pkt)
    except exc.PacketInvalid:
        ctx.check(True, "C01:message-rejected-cleanly")
        return "msg-invalid", None
    except Exception as e:  # noqa: BLE001
        ctx.check(False, "C01:message-raises-only-invalid-packet", info=type(e).__name__)
        return "msg-" + type(e).__name__, None
    ctx.check(True, "C01:decoded")
    return "ok", msg


def _is_num(x):
    from symx.values import SymFloat, SymInt, SymReal

    return isinstance(x, (int, float, SymInt, SymReal, SymFloat)) and not isinstance(x, bool)


def json_problems(x, path="$"):
    """structure must be built from dict/list/tuple/str/int/float/bool/None only (symbolic scalars
    count as their base type)"""
    from symx.values import SymBool

    if x is None or isinstance(x, (bool, str, SymBool)) or _is_num(x):
        return []
    if isinstance(x, dict):
        out = []
        for k, v in x.items():
            if not (k is None or isinstance(k, (str, bool)) or _is_num(k)):
                out.append(f"{path}: key of type {type(k).__name__}")
            out += json_problems(v, f"{path}.{k}")
        return out
    if isinstance(x, (list, tuple)):
        out = []
        for i, v in enumerate(x):
            out += json_problems(v, f"{path}[{i}]")
        return out
    return [f"{path}: {type(x).__name__}"]


def eq_struct(a, b):
    """structural equality -> bool | SymBool"""
    from symx import s_and
    from symx.strings import SymStr, Tainted, sx_eq

    if isinstance(a, Tainted) or isinstance(b, Tainted):
        return isinstance(a, Tainted) and isinstance(b, Tainted)
    if isinstance(a, dict) and isinstance(b, dict):
        ka, kb = list(a.keys()), list(b.keys())
        if len(ka) != len(kb):
            return False
        conds = []
        for x, y in zip(ka, kb):
            conds.append(sx_eq(x, y) if isinstance(x, (SymStr, str)) and isinstance(y, (SymStr, str)) else x == y)
            conds.append(eq_struct(a[x], b[y]))
        return s_and(*conds) if conds else True
    if isinstance(a, (list, tuple)) and isinstance(b, (list, tuple)):
        if len(a) != len(b):
            return False
        conds = [eq_struct(x, y) for x, y in zip(a, b)]
        return s_and(*conds) if conds else True
    if isinstance(a, (dict, list, tuple)) or isinstance(b, (dict, list, tuple)):
        return False
    if a is None or b is None:
        return a is None and b is None
    if isinstance(a, (str, SymStr)) or isinstance(b, (str, SymStr)):
        if not (isinstance(a, (str, SymStr)) and isinstance(b, (str, SymStr))):
            return False
        return sx_eq(a, b)
    return a == b


def check_ranges(ctx, p, prefix="C05"):
    from symx import s_and

    if isinstance(p, dict):
        for k, v in p.items():
            if isinstance(k, str) and _is_num(v):
                if k in RATIO_KEYS:
                    ctx.check(s_and(v >= 0, v <= 1), f"{prefix}:ratio-within-0..1", info=k)
                elif k in TEMP_KEYS or k.endswith("_temp"):
                    ctx.check(s_and(v >= TEMP_LO, v <= TEMP_HI), f"{prefix}:temperature-within-wire-range", info=k)
            else:
                check_ranges(ctx, v, prefix)
    elif isinstance(p, (list, tuple)):
        for v in p:
            check_ranges(ctx, v, prefix)


def check_idx(ctx, code, payload_text, p, prefix="C05"):
    """an index the payload reports is the one carried in the frame (independent position table)"""
    from symx.strings import sx_eq

    if code in IDX_DERIVED:
        return
    if isinstance(p, dict):
        elems = [(0, p)]
    elif isinstance(p, list) and code in ARRAY_ELEM and all(isinstance(e, dict) for e in p):
        n = ARRAY_ELEM[code] * 2
        if len(p) * n != len(payload_text):
            ctx.check(False, f"{prefix}:array-has-one-entry-per-element", info=f"{len(p)} entries for {len(payload_text) // 2} bytes")
            return
        elems = [(i * n, e) for i, e in enumerate(p)]
    else:
        return
    for off, e in elems:
        for k in IDX_KEYS:
            v = e.get(k) if isinstance(e, dict) else None
            if v is None or not isinstance(v, str):
                continue
            ctx.check(sx_eq(v, payload_text[off : off + 2]), f"{prefix}:index-is-the-one-in-the-frame", info=k)


def check_c05(ctx, line, code, payload_text, msg, determinism=True):
    from ramses_tx.message import Message
    from ramses_tx.packet import Packet

    p = msg.payload
    probs = json_problems(p)
    ctx.check(not probs, "C05:payload-is-plain-json-data", info=probs[:3])
    check_idx(ctx, code, payload_text, p)
    check_ranges(ctx, p)
    if determinism:
        # an unrelated decode in between (fills/evicts the caches), then the same frame again
        Message(Packet.from_file(DTM, "045  I --- 01:145038 --:------ 01:145038 30C9 006 0007D00107D1"))
        Message(Packet.from_file(DTM, "045 RP --- 13:049798 18:006402 --:------ 3EF1 007 00007B007B00FF"))
        # ... and the same frame under another sequence number (parsers must not leak state between packets)
        alt = line[:7] + ("034" if line[7:10] == "---" else "---") + line[10:]
        try:
            Message(Packet.from_file(DTM, alt))
        except Exception:  # noqa: BLE001
            pass
        try:
            p2 = Message(Packet.from_file(DTM, line)).payload
        except Exception as e:  # noqa: BLE001
            ctx.check(False, "C05:same-packet-decodes-the-same-again", info=f"second decode raised {type(e).__name__}")
            return
        ctx.check(eq_struct(p, p2), "C05:same-packet-decodes-the-same-again")


# ----------------------------------------------------------------------------------------------
# harnesses


def h_window(ctx, prop, head, pay, tail, off, w, via="file", determinism=True):
    import symx

    sym = symx.sym_hex(ctx, "w", w)
    payload = pay[:off] + sym + pay[off + w :]
    line = head + payload + tail
    out, msg = decode_c01(ctx, line, via)
    if prop == "C05" and msg is not None:
        check_c05(ctx, line, head[41:45], payload, msg, determinism)
    return out


def _addrs(ctx, shape, symtypes, t1="01", t2="04"):
    import symx

    if symtypes:
        t1, t2 = symx.sym_digits(ctx, "t1", 2), symx.sym_digits(ctx, "t2", 2)
    a, b = t1 + ":145038", t2 + ":056789"
    if shape == 0:
        return a + " " + b + " --:------"
    if shape == 1:
        return a + " --:------ " + a
    if shape == 2:
        return "--:------ --:------ " + a
    return a + " " + a + " --:------"


def h_full(ctx, prop, verb, code, n, shape, symtypes=True, via="file", determinism=False):
    import symx

    payload = symx.sym_hex(ctx, "p", 2 * n)
    line = "045 " + verb + " --- " + _addrs(ctx, shape, symtypes) + " " + code + " " + f"{n:03d}" + " " + payload
    out, msg = decode_c01(ctx, line, via)
    if prop == "C05" and msg is not None:
        check_c05(ctx, line, code, payload, msg, determinism)
    return out


FIELDS = {"rssi": (0, 3), "verb": (4, 6), "seqn": (7, 10), "addr0": (11, 20), "addr1": (21, 30), "addr2": (31, 40), "code": (41, 45), "len": (46, 49)}


def h_field(ctx, head, pay, field, dw, via="file"):
    """one header field replaced by arbitrary printable ASCII (width + dw)"""
    import symx

    a, b = FIELDS[field]
    sym = symx.sym_printable(ctx, "f", (b - a) + dw)
    line = head[:a] + sym + head[b:] + pay
    out, msg = decode_c01(ctx, line, via)
    return out


@lru_cache(maxsize=None)
def logged_elements(code):
    """elements of the logged frames of an array code (used as concrete neighbours)"""
    n = ARRAY_ELEM[code] * 2
    out = []
    for (verb, c), frames in corpus().items():
        if c != code or verb != " I":
            continue
        for head, pay, tail in frames:
            if len(pay) % n == 0 and decodes_ok(head, pay, tail):
                for i in range(0, len(pay), n):
                    if pay[i : i + n] not in out:
                        out.append(pay[i : i + n])
    return out or ["00" * ARRAY_ELEM[code]]


def array_payload(ctx_or_cex, code, m, sym_at):
    """payload of an m-element array: all symbolic (sym_at is None) or only element sym_at"""
    n = ARRAY_ELEM[code] * 2
    if isinstance(ctx_or_cex, dict):
        sym = ctx_or_cex["p"]
    else:
        import symx

        sym = symx.sym_hex(ctx_or_cex, "p", n * m if sym_at is None else n)
    if sym_at is None:
        return sym
    els = logged_elements(code)
    parts = []
    for i in range(m):
        parts.append(sym if i == sym_at else f"{i:02X}" + els[i % len(els)][2:])
    out = parts[0]
    for x in parts[1:]:
        out = out + x
    return out


ADDR_ALPHABET = ["01:145038", "04:056789", "--:------", "63:262142", "18:000730", "01:145039"]


def h_addrset(ctx, head, pay, via="file"):
    """every combination of the three address fields over a small alphabet (devices, null, broadcast, gateway placeholder)"""
    import symx

    a = [symx.choice(ctx, f"a{i}", ADDR_ALPHABET) for i in range(3)]
    line = head[:11] + a[0] + " " + a[1] + " " + a[2] + head[40:] + pay
    out, msg = decode_c01(ctx, line, via)
    return out


def h_trunc(ctx, prop, head, pay, via="file"):
    """the frame cut down to every shorter payload length (length field adjusted): 'truncated payload'"""
    import symx

    n = symx.choice(ctx, "n", list(range(1, len(pay) // 2)))
    line = head[:46] + f"{n:03d}" + " " + pay[: 2 * n]
    out, msg = decode_c01(ctx, line, via)
    if prop == "C05" and msg is not None:
        check_c05(ctx, line, head[41:45], pay[: 2 * n], msg, False)
    return out


def h_array(ctx, code, m, sym_at=None, shape="bcast"):
    """an m-element array decodes to the list of what each element decodes to on its own"""
    from ramses_tx.message import Message
    from ramses_tx.packet import Packet

    n = ARRAY_ELEM[code]
    src = ARRAY_SRC[code] + ":145038"
    if shape == "anysrc":
        # the announce-to-self form from a device of any type (two solver digits): whatever it decodes to, several
        # elements are never passed off as one
        import symx

        src = symx.sym_digits(ctx, "tt", 2) + ":145038"
    payload = array_payload(ctx, code, m, sym_at)
    # 'bcast': the device announces to itself (the usual array form); 'to': addressed to another device
    head = "045  I --- " + src + (" --:------ " + src if shape in ("bcast", "anysrc") else " 01:056789 --:------") + " " + code + " "
    line = head + f"{n * m:03d}" + " " + payload
    out, msg = decode_c01(ctx, line)
    if msg is None:
        return out
    p = msg.payload
    if not isinstance(p, list):
        # a single element decodes to a dict; m > 1 elements must not be passed off as one
        ctx.check(m == 1, "C05:array-decodes-to-a-list", info=f"{m} elements decoded as a {type(p).__name__}")
        return "ok:" + type(p).__name__
    ctx.check(len(p) == m, "C05:array-has-one-entry-per-element", info=f"{len(p)} for {m}")
    if shape == "anysrc":
        # for senders of other types only the shape of the result is claimed (how a lone element of such a sender is
        # labelled is a separate, recorded question: see the UFC 3150 finding)
        return f"ok:list[{len(p)}]"
    check_idx(ctx, code, payload, p)
    check_ranges(ctx, p)
    for i in range(min(m, len(p))):
        el = payload[2 * n * i : 2 * n * (i + 1)]
        try:
            single = Message(Packet.from_file(DTM, head + f"{n:03d}" + " " + el)).payload
        except Exception as e:  # noqa: BLE001
            ctx.check(False, "C05:array-element-decodes-on-its-own", info=f"{type(e).__name__}")
            continue
        if isinstance(single, list):
            single = single[0] if len(single) == 1 else single
        ctx.check(eq_struct(p[i], single), "C05:array-entry-equals-element-decoded-alone", info=i)
    return f"ok:list[{len(p)}]"


# ----------------------------------------------------------------------------------------------
# replay (plain interpreter, uninstrumented package)


def _plain_decode(line, via="file"):
    from datetime import datetime as _dt

    from ramses_tx import exceptions as exc
    from ramses_tx.message import Message
    from ramses_tx.packet import Packet

    try:
        if via == "port":
            pkt = Packet.from_port(_dt.fromisoformat(DTM), line)
        elif via == "dict":
            pkt = Packet.from_dict(DTM, line)
        else:
            pkt = Packet.from_file(DTM, line)
    except (exc.PacketInvalid, ValueError) as e:
        return "rejected", type(e).__name__, None
    except Exception as e:  # noqa: BLE001
        return "escaped", f"Packet factory raised {type(e).__name__}: {e}"[:200], None
    try:
        msg = Message(pkt)
    except exc.PacketInvalid as e:
        return "rejected", type(e).__name__, None
    except Exception as e:  # noqa: BLE001
        return "escaped", f"Message() raised {type(e).__name__}: {e}"[:200], None
    return "ok", "", msg


def concrete_line(item):
    """rebuild the concrete frame line of a counterexample"""
    cex, prm = item["cex"], item["params"]
    h = prm["h"]
    if h == "win":
        pay = prm["pay"]
        payload = pay[: prm["off"]] + cex["w"] + pay[prm["off"] + prm["w"] :]
        return prm["head"] + payload + prm.get("tail", ""), prm["head"][41:45], payload
    if h == "full":
        t1, t2 = cex.get("t1", "01"), cex.get("t2", "04")  # (defaults = the concrete types used when symtypes is off)
        a, b = t1 + ":145038", t2 + ":056789"
        sh = prm["shape"]
        addrs = [a + " " + b + " --:------", a + " --:------ " + a, "--:------ --:------ " + a, a + " " + a + " --:------"][sh]
        n = prm["n"]
        return "045 " + prm["verb"] + " --- " + addrs + " " + prm["code"] + " " + f"{n:03d}" + " " + cex["p"], prm["code"], cex["p"]
    if h == "addrset":
        head = prm["head"]
        return head[:11] + cex["a0"] + " " + cex["a1"] + " " + cex["a2"] + head[40:] + prm["pay"], None, prm["pay"]
    if h == "field":
        a, b = FIELDS[prm["field"]]
        return prm["head"][:a] + cex["f"] + prm["head"][b:] + prm["pay"], None, prm["pay"]
    if h == "trunc":
        n = int(cex["n"])
        return prm["head"][:46] + f"{n:03d}" + " " + prm["pay"][: 2 * n], prm["head"][41:45], prm["pay"][: 2 * n]
    if h == "array":
        code, m = prm["code"], prm["m"]
        n = ARRAY_ELEM[code]
        src = (cex.get("tt") if prm.get("shape") == "anysrc" else ARRAY_SRC[code]) + ":145038"
        pay = array_payload(cex, code, m, prm.get("sym_at"))
        addrs = src + (" --:------ " + src if prm.get("shape", "bcast") in ("bcast", "anysrc") else " 01:056789 --:------")
        return "045  I --- " + addrs + " " + code + " " + f"{n * m:03d}" + " " + pay, code, pay
    raise ValueError(h)


class _Rec:
    """concrete stand-in for ctx.check: records failed obligations"""

    def __init__(self):
        self.failed = []

    def check(self, cond, label, info=None, regions=None):
        if not bool(cond):
            self.failed.append((label, info))
        return bool(cond)


def replay_decode(item):
    """-> dict(reproduced, observed, signature)"""
    from ramses_tx.message import Message
    from ramses_tx.packet import Packet

    prm = item["params"]
    if prm["h"] == "conc":
        for head, pay in prm["frames"]:
            r = replay_decode({"params": {"h": "win", "head": head, "pay": pay, "off": 0, "w": 0}, "cex": {"w": ""}, "label": item["label"]})
            if r["reproduced"]:
                return r
        return {"reproduced": False, "observed": "all frames of the chunk decode consistently", "signature": None}
    line, code, payload = concrete_line(item)
    via = prm.get("via", "file")
    st, why, msg = _plain_decode(line, via)
    label = item["label"]
    if label.startswith("C01:"):
        if st == "escaped":
            et = why.split("raised ")[1].split(":")[0]
            where = "Packet" if why.startswith("Packet") else "Message"
            return {"reproduced": True, "observed": f"{line!r}: {why}", "signature": f"{where} raises {et}"}
        return {"reproduced": False, "observed": f"{line!r}: {st} {why}", "signature": None}
    if st != "ok":
        return {"reproduced": False, "observed": f"{line!r}: {st} {why}", "signature": None}
    rec = _Rec()
    details = []
    if prm["h"] == "array":
        m, n = prm["m"], ARRAY_ELEM[code]
        p = msg.payload
        head = line[: 46]
        if not isinstance(p, list):
            rec.check(m == 1, "C05:array-decodes-to-a-list")
        else:
            rec.check(len(p) == m, "C05:array-has-one-entry-per-element")
            check_idx(rec, code, payload, p)
            check_ranges(rec, p)
            for i in range(min(m, len(p))):
                el = payload[2 * n * i : 2 * n * (i + 1)]
                try:
                    single = Message(Packet.from_file(DTM, head + f"{n:03d}" + " " + el)).payload
                except Exception as e:  # noqa: BLE001
                    rec.check(False, "C05:array-element-decodes-on-its-own", info=type(e).__name__)
                    continue
                if isinstance(single, list):
                    single = single[0] if len(single) == 1 else single
                if isinstance(p[i], dict) and isinstance(single, dict) and set(p[i]) != set(single):
                    short = prm.get("shape", "bcast") + ": keys " + "/".join(sorted(set(p[i]) ^ set(single)))
                else:
                    short = prm.get("shape", "bcast") + ": values"
                if p[i] != single:
                    details.append(f"{p[i]} != {single}")
                rec.check(p[i] == single, "C05:array-entry-equals-element-decoded-alone", info=short[:29])
    else:
        import json

        try:
            json.dumps(msg.payload)
        except (TypeError, ValueError) as e:
            rec.failed.append(("C05:payload-is-plain-json-data", str(e)[:100]))
        check_c05(rec, line, code or line[41:45], payload, msg, determinism=True)
    hit = [f for f in rec.failed if f[0] == label] or rec.failed
    if not hit:
        return {"reproduced": False, "observed": f"{line!r} -> {msg.payload!r}"[:400], "signature": None}
    lab, info = hit[0]
    return {"reproduced": True, "observed": f"{line!r} -> {msg.payload!r} :: {lab} {info} {'; '.join(details[:2])}"[:600], "signature": f"{(code or line[41:45])} {lab.split(':', 1)[1]}" + (f" [{info}]" if isinstance(info, str) and len(info) < 30 else "")}
