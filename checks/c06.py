"""C06 - request and reply correlate: echo/reply headers match, distinct contexts differ.

The real matching code - ``IsInIdle.cmd_sent`` (gateway-id substitution into the command header),
``WantEcho.pkt_rcvd`` and ``WantRply.pkt_rcvd`` with ``pkt_header``/``Frame._ctx/_idx/_hdr``/
``_pkt_idx``/``Command.tx_header/rx_header`` underneath - runs on a recording stand-in for the
protocol context.  Requests are the repository's logged RQ/W frames (one per code and payload
shape) re-addressed from the ``18:000730`` placeholder, with their *context characters* (zone /
domain / dhw index, log index, OpenTherm msg id, fragment number, zone type) symbolic and the
gateway's real id six symbolic digits.  Packets offered to the state machine:

* the echo: the same frame with the gateway's real id substituted;
* the reply of a conforming device (independent model: addresses swapped, RQ->RP / W->I, same code,
  the request's context characters at the same payload positions, every other payload character
  symbolic);
* near misses differing in exactly one of {code, verb, responding device, addressee, context}.

Per path the solver must show: echo => the state leaves WantEcho (to WantRply when a reply is
expected, else idle with the echo as result); reply => accepted as the result; a near miss =>
neither echo nor reply."""
from __future__ import annotations

import os
import re
import types

from checks import common
from checks import decode as D
from symx.runner import Query

PROPERTY = "C06"
LEVEL = "other"
EXPLANATION = __doc__
FUNCTIONS = [
    "ramses_tx.frame:pkt_header", "ramses_tx.frame:_pkt_idx", "ramses_tx.frame:Frame._ctx", "ramses_tx.frame:Frame._idx", "ramses_tx.frame:Frame._hdr", "ramses_tx.frame:Frame._has_ctl", "ramses_tx.frame:Frame._has_array",
    "ramses_tx.command:Command.tx_header", "ramses_tx.command:Command.rx_header", "ramses_tx.protocol_fsm:IsInIdle.cmd_sent", "ramses_tx.protocol_fsm:WantEcho.pkt_rcvd", "ramses_tx.protocol_fsm:WantRply.pkt_rcvd",
]
BOUNDS = {
    "quick": {"requests": "one logged RQ/W frame per (verb, code, payload length), context characters symbolic, gateway id 6 symbolic digits", "reply payload": "context positions copied, up to 8 further characters symbolic, the rest as logged",
              "near misses": "one attribute at a time"},
    "thorough": {"requests": "up to 3 logged frames per (verb, code, payload length)", "reply payload": "up to 16 further characters symbolic"},
}
OUTSIDE = ["1FC9 binding frames (covered under C20)", "commands built by the public constructors are covered through their logged equivalents here and by C03's header clause",
           "requests whose code has no logged RQ/W frame in tests/"]
STUBS = ["ProtocolContext -> recording object (set_state records the transition; _protocol.hgi_id = the symbolic gateway id)"]
ASSUMPTIONS = ["context positions (independent table): payload[:2] for the indexed codes, [:4] for 0005/000C, [:4]+[10:12] for 0404 (zone index, schedule kind 20/23, fragment number), [4:6] for 0418 and 3220"]
MIN_CONCLUSIVE_FRACTION = 0.8
DTM = "2023-01-01T00:00:00.000000"
HGI = "18:000730"
NULL_0418 = "000000B0000000000000000000007FFFFF7000000000"  # the controller's 'no such log entry' reply

# codes whose request carries a context, and where (independent of the code's own tables)
CTX_POS = {"0005": [(0, 4)], "000C": [(0, 4)], "0404": [(0, 4), (10, 12)], "0418": [(4, 6)], "3220": [(4, 6)]}  # 0404: zone idx + schedule kind (20 zone / 23 DHW), fragment
ZONE_IDX_CODES = {"0004", "000A", "12B0", "2309", "2349", "30C9", "3150", "0008", "0009", "22C9"}  # (1100 carries a context only for the FC domain)


def setup(tier):
    common.install()
    import ramses_tx.protocol_fsm  # noqa: F401


def _split(head):
    """'045 RQ --- a b c CODE LEN ' -> fields"""
    return {"rssi": head[0:3], "verb": head[4:6], "seqn": head[7:10], "a0": head[11:20], "a1": head[21:30], "a2": head[31:40], "code": head[41:45], "len": head[46:49]}


def _ctx_positions(code, pay, dst):
    if code in CTX_POS:
        return [(a, b) for a, b in CTX_POS[code] if b <= len(pay)]
    if code in ZONE_IDX_CODES and dst[:2] in ("01", "02", "23") and len(pay) >= 2:
        return [(0, 2)]
    return []


def plan(nbase):
    """[(request fields, request payload, reply payload|None)] from the logs"""
    corp = D.corpus()
    out = []
    for (verb, code), frames in sorted(corp.items()):
        if verb not in ("RQ", " W") or code in ("1FC9", "7FFF"):
            continue
        k = 0
        for head, pay, tail in frames:
            f = _split(head)
            if f["a2"] != "--:------" or f["a0"][:2] in ("--", "63") or f["a1"][:2] in ("18", "--", "63") or f["a0"] == f["a1"]:
                continue
            if not D.decodes_ok(head, pay, tail):
                continue
            # a logged reply of the same code from the addressed device
            rverb = "RP" if verb == "RQ" else " I"
            reply = None
            for h2, p2, t2 in corp.get((rverb, code), []):
                f2 = _split(h2)
                if f2["a0"] == f["a1"] and f2["a2"] == "--:------" and f2["a1"][:2] not in ("--", "63") and all(p2[a:b] == pay[a:b] for a, b in _ctx_positions(code, pay, f["a1"]) if b <= len(p2)):
                    reply = p2
                    break
            out.append((f, pay, reply))
            k += 1
            if k >= nbase:
                break
    return out


CTL, OTB, BDR = "01:145038", "10:048122", "13:049798"


def pick_reply(verb, code, payload, pos):
    """a logged reply payload of this code to model the responding device on: one that answers the
    same (concrete) leading index byte when there is one"""
    cands = [p2 for h2, p2, t2 in D.corpus().get(("RP" if verb == "RQ" else " I", code), []) if _split(h2)["a2"] == "--:------" and len(p2) >= max([b for a, b in pos] + [2])]
    lead = payload[:2] if not any(a == 0 for a, b in pos) and type(payload) is str and len(payload) >= 2 else None
    if lead is not None:
        same = [p2 for p2 in cands if p2[:2] == lead]
        if same:
            return same[0]
    return cands[0] if cands else None


class SymSource:
    """argument source for the constructor table: symbolic (check) ..."""

    def __init__(self, ctx):
        self.ctx = ctx

    def hx(self, name):
        import symx

        return "0" + symx.sym_hex(self.ctx, name, 1)

    def int(self, name, lo, hi):
        import symx

        return symx.sym_int(self.ctx, name, lo, hi)

    def choice(self, name, options):
        import symx

        return symx.choice(self.ctx, name, options)


class CexSource:
    """... or concrete, read back from a counterexample (replay)"""

    def __init__(self, cex):
        self.cex = cex

    def hx(self, name):
        return "0" + self.cex.get(name, "0")

    def int(self, name, lo, hi):
        return int(self.cex.get(name, lo))

    def choice(self, name, options):
        return self.cex.get(name, options[-1])


def constructors():
    """name -> (dst, builder(source, tag) -> Command): requests built by the public constructors with
    their context arguments symbolic"""
    from ramses_tx.command import Command as C

    return {
        "get_zone_mode": (CTL, lambda s, t: C.get_zone_mode(CTL, s.hx(t + "z"))),
        "get_zone_config": (CTL, lambda s, t: C.get_zone_config(CTL, s.hx(t + "z"))),
        "get_zone_name": (CTL, lambda s, t: C.get_zone_name(CTL, s.hx(t + "z"))),
        "get_zone_setpoint": (CTL, lambda s, t: C.get_zone_setpoint(CTL, s.hx(t + "z"))),
        "get_zone_temp": (CTL, lambda s, t: C.get_zone_temp(CTL, s.hx(t + "z"))),
        "get_zone_window_state": (CTL, lambda s, t: C.get_zone_window_state(CTL, s.hx(t + "z"))),
        "get_mix_valve_params": (CTL, lambda s, t: C.get_mix_valve_params(CTL, s.hx(t + "z"))),
        "get_relay_demand": (CTL, lambda s, t: C.get_relay_demand(CTL, s.hx(t + "z"))),
        "get_dhw_mode": (CTL, lambda s, t: C.get_dhw_mode(CTL)),
        "get_dhw_params": (CTL, lambda s, t: C.get_dhw_params(CTL)),
        "get_dhw_temp": (CTL, lambda s, t: C.get_dhw_temp(CTL)),
        "get_system_mode": (CTL, lambda s, t: C.get_system_mode(CTL)),
        "get_system_time": (CTL, lambda s, t: C.get_system_time(CTL)),
        "get_system_language": (CTL, lambda s, t: C.get_system_language(CTL)),
        "get_schedule_version": (CTL, lambda s, t: C.get_schedule_version(CTL)),
        "get_tpi_params": (BDR, lambda s, t: C.get_tpi_params(BDR)),
        "get_system_log_entry": (CTL, lambda s, t: C.get_system_log_entry(CTL, s.int(t + "log", 0, 63))),
        "get_opentherm_data": (OTB, lambda s, t: C.get_opentherm_data(OTB, s.choice(t + "msg", [0, 3, 5, 17, 18, 25, 56, 57, 115, 127]))),
        "get_schedule_fragment": (CTL, lambda s, t: C.get_schedule_fragment(CTL, ("HW" if s.choice(t + "kind", ["dhw", "zone"]) == "dhw" else s.hx(t + "z")), s.choice(t + "frag", [1, 2, 3]), s.choice(t + "tot", [0, 3]))),
        "set_zone_setpoint": (CTL, lambda s, t: C.set_zone_setpoint(CTL, s.hx(t + "z"), 19.5)),
        "set_zone_mode": (CTL, lambda s, t: C.set_zone_mode(CTL, s.hx(t + "z"), mode="follow_schedule")),
        "set_zone_name": (CTL, lambda s, t: C.set_zone_name(CTL, s.hx(t + "z"), "Kitchen")),
        "set_zone_config": (CTL, lambda s, t: C.set_zone_config(CTL, s.hx(t + "z"))),
        "set_system_mode": (CTL, lambda s, t: C.set_system_mode(CTL, "auto")),
        "set_dhw_mode": (CTL, lambda s, t: C.set_dhw_mode(CTL, mode="follow_schedule")),
    }


class _Ctx:
    def __init__(self, hgi):
        self._protocol = types.SimpleNamespace(hgi_id=hgi)
        self.trans = []
        self._state = None

    def set_state(self, cls, result=None, **kw):
        self.trans.append((cls.__name__, result))

    def __repr__(self):
        return "<ctx>"


def _mk_request(ctx, f, pay):
    import symx

    pos = _ctx_positions(f["code"], pay, f["a1"])
    chars = list(pay)
    syms = []
    for j, (a, b) in enumerate(pos):
        s = symx.sym_hex(ctx, f"ctx{j}", b - a)
        syms.append(s)
    payload = pay
    for (a, b), s in zip(reversed(pos), reversed(syms)):
        payload = payload[:a] + s + payload[b:]
    return payload, pos, syms


def _frame(verb, a0, a1, a2, code, payload, seqn="---"):
    return verb + " " + seqn + " " + a0 + " " + a1 + " " + a2 + " " + code + " " + f"{len(payload) // 2:03d}" + " " + payload


def _drive_to_echo_wait(gw, frame):
    from ramses_tx import protocol_fsm as F
    from ramses_tx.command import Command

    cmd = Command(frame)
    c = _Ctx(gw)
    st = F.IsInIdle(c)
    c._state = st
    st.cmd_sent(cmd, is_retry=False)
    we = F.WantEcho(c)
    c._state = we
    c.trans.clear()
    return cmd, c, we


def _pkt(line):
    from datetime import datetime as _dt

    from ramses_tx.packet import Packet

    return Packet.from_port(_dt.fromisoformat(DTM), "045 " + line)


def h_correlate(ctx, f, pay, reply_pay, nsym, miss, ctor=None):
    """miss: None (echo + reply accepted) or the attribute in which the offered packet differs;
    ctor: name of a public constructor that builds the request (else the logged frame f/pay)"""
    import symx
    from ramses_tx import exceptions as exc
    from ramses_tx import protocol_fsm as F
    from symx import s_not
    from symx.strings import sx_eq

    gw = "18:" + symx.sym_digits(ctx, "gw", 6)
    ctx.assume(s_not(sx_eq(gw, HGI)).e)
    if ctor:
        dev, build = constructors()[ctor]
        try:
            cmd0 = build(SymSource(ctx), "")
        except (exc.CommandInvalid, exc.PacketInvalid, AssertionError, ValueError, TypeError):
            return "constructor-refused"
        code, verb, payload = str(cmd0.code), str(cmd0.verb), cmd0.payload
        pos = _ctx_positions(code, payload, dev)
        syms = [payload[a:b] for a, b in pos]
        if reply_pay is None:
            reply_pay = pick_reply(verb, code, payload, pos)
    else:
        dev, code, verb = f["a1"], f["code"], f["verb"]
        payload, pos, syms = _mk_request(ctx, f, pay)
    req = _frame(verb, HGI, dev, "--:------", code, payload)
    try:
        cmd, c, we = _drive_to_echo_wait(gw, req)
    except (exc.PacketInvalid, exc.CommandInvalid, AssertionError, ValueError):
        return "request-refused"
    expects_reply = cmd.rx_header is not None
    rverb = "RP" if verb == "RQ" else " I"

    def reply_payload(ctx_syms):
        if reply_pay is None:
            return None
        rp = reply_pay
        for (a, b), s in zip(pos, ctx_syms):
            if b <= len(rp):
                rp = rp[:a] + s + rp[b:]
        # further characters symbolic (after the last context position)
        start = max([b for a, b in pos] + [2])
        k = min(nsym, max(0, len(rp) - start))
        if k:
            rp = rp[:start] + symx.sym_hex(ctx, "r", k) + rp[start + k :]
        return rp

    if miss == "early":
        # ---- the device's reply overtakes the echo: still recognised as the reply
        if not expects_reply or reply_pay is None:
            return "no-reply-due"
        rp = reply_payload(syms)
        try:
            rpkt = _pkt(_frame(rverb, dev, gw, "--:------", code, rp))
        except (exc.PacketInvalid, ValueError):
            return "reply-not-a-packet"
        we.pkt_rcvd(rpkt)
        ctx.check(len(c.trans) == 1 and c.trans[0][0] == "IsInIdle" and c.trans[0][1] is rpkt, "C06:reply-before-echo-recognised-and-returned", info=str(c.trans)[:80])
        return "early-reply"
    if miss == "late":
        # ---- a wait expired and the command was transmitted again (the context makes a new WantEcho from the
        # state it was in); the device's reply to the first transmission then arrives before the new echo: it is
        # still this command's reply, addressed to the gateway's real id
        if not expects_reply or reply_pay is None:
            return "no-reply-due"
        prev = we
        if symx.choice(ctx, "resent_after", ["echo-wait", "reply-wait"]) == "reply-wait":
            echo = _pkt(_frame(verb, gw, dev, "--:------", code, payload))
            we.pkt_rcvd(echo)
            if not c.trans or c.trans[0][0] != "WantRply":
                return "late:no-reply-state"
            prev = F.WantRply(c)
            c._state = prev
        c.trans.clear()
        we2 = F.WantEcho(c)  # ProtocolContext.set_state(WantEcho, timed_out=True)
        c._state = we2
        we2.cmd_sent(cmd, is_retry=True)  # ProtocolContext._send_cmd(cmd, is_retry=True)
        rp = reply_payload(syms)
        try:
            rpkt = _pkt(_frame(rverb, dev, gw, "--:------", code, rp))
        except (exc.PacketInvalid, ValueError):
            return "reply-not-a-packet"
        we2.pkt_rcvd(rpkt)
        ctx.check(len(c.trans) == 1 and c.trans[0][0] == "IsInIdle" and c.trans[0][1] is rpkt, "C06:late-reply-after-a-retransmission-recognised", info=str(c.trans)[:80])
        # ... and the echo of the retransmission is recognised as well when it comes first
        return "late-reply"
    if miss is None:
        # ---- the echo, as the gateway reports it (real id substituted)
        echo = _pkt(_frame(verb, gw, dev, "--:------", code, payload))
        we.pkt_rcvd(echo)
        if expects_reply:
            ctx.check(len(c.trans) == 1 and c.trans[0][0] == "WantRply", "C06:echo-recognised", info=str(c.trans)[:80])
        else:
            ctx.check(len(c.trans) == 1 and c.trans[0][0] == "IsInIdle" and c.trans[0][1] is echo, "C06:echo-recognised-and-returned", info=str(c.trans)[:80])
        if not expects_reply or reply_pay is None or not c.trans:
            return "echo-only"
        wr = F.WantRply(c)
        c._state = wr
        c.trans.clear()
        rp = reply_payload(syms)
        try:
            rpkt = _pkt(_frame(rverb, dev, gw, "--:------", code, rp))
        except (exc.PacketInvalid, ValueError):
            return "reply-not-a-packet"
        wr.pkt_rcvd(rpkt)
        ctx.check(len(c.trans) == 1 and c.trans[0][0] == "IsInIdle" and c.trans[0][1] is rpkt, "C06:reply-recognised-and-returned", info=str(c.trans)[:80])
        return "echo+reply"

    # ---- near misses: offered in both waiting states, must be ignored
    other_dev = dev[:3] + symx.sym_digits(ctx, "od", 6)
    ctx.assume(s_not(sx_eq(other_dev, dev)).e)
    if miss == "context":
        if not pos:
            return "no-context"
        if ctor:
            try:
                alt_payload = build(SymSource(ctx), "alt_").payload
            except (exc.CommandInvalid, exc.PacketInvalid, AssertionError, ValueError, TypeError):
                return "constructor-refused"
            alt = [alt_payload[a:b] for a, b in pos]
        else:
            alt = [symx.sym_hex(ctx, f"alt{j}", b - a) for j, (a, b) in enumerate(pos)]
            alt_payload = payload
            for (a, b), s in zip(pos, alt):
                alt_payload = alt_payload[:a] + s + alt_payload[b:]
        same = symx.s_and(*[sx_eq(x, y) for x, y in zip(alt, syms)])
        if same is True:
            return "no-distinct-context"
        if same is not False:
            ctx.assume(s_not(same).e)
        e_line = _frame(verb, gw, dev, "--:------", code, alt_payload)
        r_line = _frame(rverb, dev, gw, "--:------", code, reply_payload(alt)) if reply_pay else None
    elif miss == "code":
        ocode = symx.choice(ctx, "ocode", [x for x in ("2309", "30C9", "000A", "0004", "3220", "0418", "10A0", "1260") if x != code][:4])
        e_line = _frame(verb, gw, dev, "--:------", ocode, payload)
        r_line = _frame(rverb, dev, gw, "--:------", ocode, reply_payload(syms)) if reply_pay else None
    elif miss == "verb":
        overb_e = symx.choice(ctx, "overb", [v for v in ("RQ", " W", " I", "RP") if v != verb])
        e_line = _frame(overb_e, gw, dev, "--:------", code, payload)
        overb_r = " I" if rverb == "RP" else "RP"
        rp_ = NULL_0418 if code == "0418" and symx.flag(ctx, "null_entry") else (reply_payload(syms) if reply_pay else None)
        r_line = _frame(overb_r, dev, gw, "--:------", code, rp_) if rp_ else None
    elif miss == "device":
        e_line = _frame(verb, gw, other_dev, "--:------", code, payload)
        rp_ = NULL_0418 if code == "0418" and symx.flag(ctx, "null_entry") else (reply_payload(syms) if reply_pay else None)
        r_line = _frame(rverb, other_dev, gw, "--:------", code, rp_) if rp_ else None
    else:
        raise ValueError(miss)
    try:
        epkt = _pkt(e_line)
        we.pkt_rcvd(epkt)  # (a header that cannot be computed raises the invalid-packet error: not taken either)
    except (exc.PacketInvalid, ValueError):
        pass
    ctx.check(not c.trans, f"C06:near-miss({miss})-not-taken-for-the-echo", info=str(c.trans)[:80])
    if not expects_reply or r_line is None:
        return f"miss-{miss}:echo-only"
    # move on with the true echo, then offer the near-miss reply
    c.trans.clear()
    echo = _pkt(_frame(verb, gw, dev, "--:------", code, payload))
    we.pkt_rcvd(echo)
    if not c.trans or c.trans[0][0] != "WantRply":
        return f"miss-{miss}:no-reply-state"
    wr = F.WantRply(c)
    c._state = wr
    c.trans.clear()
    try:
        rpkt = _pkt(r_line)
    except (exc.PacketInvalid, ValueError):
        return f"miss-{miss}:reply-not-a-packet"
    try:
        wr.pkt_rcvd(rpkt)
    except exc.PacketInvalid:
        pass
    null_entry = code == "0418" and miss == "context"  # the documented 0418 null-entry rule compares the payload, not the index
    if not null_entry:
        ctx.check(not c.trans, f"C06:near-miss({miss})-not-taken-for-the-reply", info=str(c.trans)[:80])
    else:
        from symx.strings import sx_eq as eq

        is_null = eq(rpkt.payload, "000000B0000000000000000000007FFFFF7000000000") if len(rpkt.payload) == 44 else False
        ctx.check(symx.s_or(is_null, not c.trans) if not isinstance(is_null, bool) else (is_null or not c.trans), "C06:near-miss(context)-not-taken-for-the-reply", info=str(c.trans)[:80])
    return f"miss-{miss}"


def queries(tier, seed):
    thorough = tier == "thorough"
    qs = []
    seen = set()
    for f, pay, reply in plan(3 if thorough else 1):
        key = (f["verb"], f["code"], len(pay))
        n = sum(1 for k in seen if k[:3] == key)
        seen.add(key + (n,))
        tag = f"{f['verb']}|{f['code']}|{len(pay) // 2}#{n}"
        nsym = 16 if thorough else 8
        for miss in (None, "early", "late", "context", "code", "verb", "device"):
            prm = {"h": "correlate", "f": f, "pay": pay, "reply": reply, "nsym": nsym, "miss": miss}
            qs.append(Query(f"{'match' if miss is None else (miss if miss in ('early', 'late') else 'miss-' + miss)}[{tag}]", lambda c, a=(f, pay, reply, nsym, miss): h_correlate(c, *a), prm, group="match" if miss in (None, "early", "late") else "miss", max_secs=300 if thorough else 90, max_paths=50_000,
                            mode=("bv" if f["code"] == "3220" and False else "int"), weight=len(pay) / 20 + 1))

    for name in constructors():
        for miss in (None, "early", "late", "context", "code", "verb", "device"):
            prm = {"h": "correlate", "f": None, "pay": None, "reply": None, "nsym": 8, "miss": miss, "ctor": name}
            qs.append(Query(f"{'match' if miss is None else (miss if miss in ('early', 'late') else 'miss-' + miss)}[{name}]", lambda c, a=(None, None, None, 8, miss, name): h_correlate(c, *a), prm, group="match" if miss in (None, "early", "late") else "miss", max_secs=300 if thorough else 90, max_paths=50_000, weight=3))

    def canary(c):
        # a reply for another zone must not be claimed recognised
        f, pay, reply = next((x for x in plan(1) if x[0]["code"] in ("2349", "0004", "000A") and x[2]), plan(1)[0])
        out = h_correlate(c, f, pay, reply, 0, "context")
        c.check(out != "miss-context", "canary")

    qs.append(Query("canary:ctx", canary, canary=True))
    only = os.environ.get("C06_ONLY")
    if only:
        qs = [q for q in qs if only in q.name or q.canary]
    return qs


# ------------------------------------------------------------------------------------------


def replay(item):
    common.plain_imports()
    from ramses_tx import exceptions as exc
    from ramses_tx import protocol_fsm as F

    cex, prm, label = item["cex"], item["params"], item["label"]
    f, pay, reply_pay, nsym, miss, ctor = prm["f"], prm["pay"], prm["reply"], prm["nsym"], prm["miss"], prm.get("ctor")
    gw = "18:" + cex["gw"]
    alt_ctor_payload = None
    if ctor:
        dev, build = constructors()[ctor]
        cmd0 = build(CexSource(cex), "")
        code, verb, payload = str(cmd0.code), str(cmd0.verb), cmd0.payload
        pos = _ctx_positions(code, payload, dev)
        syms = [payload[a:b] for a, b in pos]
        if reply_pay is None:
            reply_pay = pick_reply(verb, code, payload, pos)
        if miss == "context":
            alt_ctor_payload = build(CexSource(cex), "alt_").payload
    else:
        dev, code, verb = f["a1"], f["code"], f["verb"]
        pos = _ctx_positions(code, pay, dev)
        syms = [cex.get(f"ctx{j}", pay[a:b]) for j, (a, b) in enumerate(pos)]
        payload = pay
        for (a, b), s in zip(pos, syms):
            payload = payload[:a] + s + payload[b:]
    rverb = "RP" if verb == "RQ" else " I"

    def reply_payload(cs):
        rp = reply_pay
        for (a, b), s in zip(pos, cs):
            if b <= len(rp):
                rp = rp[:a] + s + rp[b:]
        start = max([b for a, b in pos] + [2])
        k = min(nsym, max(0, len(rp) - start))
        if k:
            rp = rp[:start] + cex.get("r", rp[start : start + k]) + rp[start + k :]
        return rp

    req = _frame(verb, HGI, dev, "--:------", code, payload)
    cmd, c, we = _drive_to_echo_wait(gw, req)
    expects_reply = cmd.rx_header is not None
    desc = f"request {req!r} (tx {cmd.tx_header}, rx {cmd.rx_header}), gateway {gw}: "
    bad = []
    if miss == "early":
        r_line = _frame(rverb, dev, gw, "--:------", code, reply_payload(syms))
        rpkt = _pkt(r_line)
        we.pkt_rcvd(rpkt)
        if not (len(c.trans) == 1 and c.trans[0][0] == "IsInIdle" and c.trans[0][1] is rpkt):
            bad.append(f"reply {r_line!r} (hdr {rpkt._hdr}) arriving before the echo is not accepted: {[t[0] for t in c.trans]}")
        return {"reproduced": bool(bad), "observed": (desc + "; ".join(bad))[:700], "signature": f"{verb}|{code}: {label.split(':', 1)[1]}"}
    if miss == "late":
        prev = we
        how = cex.get("resent_after", "reply-wait")
        if how == "reply-wait":
            we.pkt_rcvd(_pkt(_frame(verb, gw, dev, "--:------", code, payload)))
            prev = F.WantRply(c)
            c._state = prev
        c.trans.clear()
        we2 = F.WantEcho(c)
        c._state = we2
        we2.cmd_sent(cmd, is_retry=True)
        r_line = _frame(rverb, dev, gw, "--:------", code, reply_payload(syms))
        rpkt = _pkt(r_line)
        we2.pkt_rcvd(rpkt)
        if not (len(c.trans) == 1 and c.trans[0][0] == "IsInIdle" and c.trans[0][1] is rpkt):
            bad.append(f"after a retransmission (the {how} expired) the reply {r_line!r} (hdr {rpkt._hdr}) arriving before the new echo is not accepted: {[t[0] for t in c.trans]}")
        return {"reproduced": bool(bad), "observed": (desc + "; ".join(bad))[:700], "signature": f"{verb}|{code}: {label.split(':', 1)[1]}"}
    if miss is None:
        e_line = _frame(verb, gw, dev, "--:------", code, payload)
        echo = _pkt(e_line)
        we.pkt_rcvd(echo)
        if expects_reply and [t[0] for t in c.trans] != ["WantRply"]:
            bad.append(f"echo {e_line!r} (hdr {echo._hdr}) -> {[t[0] for t in c.trans]}")
        if not expects_reply and not (len(c.trans) == 1 and c.trans[0][0] == "IsInIdle" and c.trans[0][1] is echo):
            bad.append(f"echo {e_line!r} (hdr {echo._hdr}) not returned: {[t[0] for t in c.trans]}")
        if expects_reply and reply_pay and not bad:
            wr = F.WantRply(c)
            c._state = wr
            c.trans.clear()
            r_line = _frame(rverb, dev, gw, "--:------", code, reply_payload(syms))
            rpkt = _pkt(r_line)
            wr.pkt_rcvd(rpkt)
            if not (len(c.trans) == 1 and c.trans[0][0] == "IsInIdle" and c.trans[0][1] is rpkt):
                bad.append(f"reply {r_line!r} (hdr {rpkt._hdr}) not accepted")
        return {"reproduced": bool(bad), "observed": (desc + "; ".join(bad))[:700], "signature": f"{verb}|{code}: {label.split(':', 1)[1]}"}
    other_dev = dev[:3] + cex.get("od", "999999")
    if miss == "context":
        if alt_ctor_payload is not None:
            ap = alt_ctor_payload
            alt = [ap[a:b] for a, b in pos]
        else:
            alt = [cex.get(f"alt{j}", "") for j in range(len(pos))]
            ap = payload
            for (a, b), s in zip(pos, alt):
                ap = ap[:a] + s + ap[b:]
        e_line = _frame(verb, gw, dev, "--:------", code, ap)
        r_line = _frame(rverb, dev, gw, "--:------", code, reply_payload(alt)) if reply_pay else None
    elif miss == "code":
        e_line = _frame(verb, gw, dev, "--:------", cex["ocode"], payload)
        r_line = _frame(rverb, dev, gw, "--:------", cex["ocode"], reply_payload(syms)) if reply_pay else None
    elif miss == "verb":
        e_line = _frame(cex["overb"], gw, dev, "--:------", code, payload)
        rp_ = NULL_0418 if code == "0418" and cex.get("null_entry") else (reply_payload(syms) if reply_pay else None)
        r_line = _frame(" I" if rverb == "RP" else "RP", dev, gw, "--:------", code, rp_) if rp_ else None
    else:
        e_line = _frame(verb, gw, other_dev, "--:------", code, payload)
        rp_ = NULL_0418 if code == "0418" and cex.get("null_entry") else (reply_payload(syms) if reply_pay else None)
        r_line = _frame(rverb, other_dev, gw, "--:------", code, rp_) if rp_ else None
    try:
        epkt = _pkt(e_line)
        we.pkt_rcvd(epkt)
        if c.trans:
            bad.append(f"near-miss {e_line!r} (hdr {epkt._hdr}) taken for the echo -> {[t[0] for t in c.trans]}")
    except (exc.PacketInvalid, ValueError):
        pass
    if expects_reply and r_line is not None and not bad:
        c.trans.clear()
        we.pkt_rcvd(_pkt(_frame(verb, gw, dev, "--:------", code, payload)))
        if c.trans and c.trans[0][0] == "WantRply":
            wr = F.WantRply(c)
            c._state = wr
            c.trans.clear()
            try:
                rpkt = _pkt(r_line)
                wr.pkt_rcvd(rpkt)
                null = rpkt.payload == "000000B0000000000000000000007FFFFF7000000000"
                if c.trans and not (code == "0418" and miss == "context" and null):
                    bad.append(f"near-miss {r_line!r} (hdr {rpkt._hdr}) taken for the reply")
            except (exc.PacketInvalid, ValueError):
                pass
    return {"reproduced": bool(bad), "observed": (desc + "; ".join(bad))[:700], "signature": f"{verb}|{code}: {label.split(':', 1)[1]}"}
