"""Shared harness for C13 (pause/resume pairing) and C16 (snapshot filter and storage format): the real
``Gateway.get_state`` / ``Gateway._restore_cached_packets`` with the real ``Engine._pause/_resume`` run on
a Gateway object created without ``__init__`` that carries only the attributes those methods read."""
from __future__ import annotations

import threading
import types

CTL = "01:145038"
T0 = "2023-01-01T00:00:0%d.000000"

# representative stored messages: (tag, frame)  - verbs x kinds the snapshot filter distinguishes
FRAMES = [
    ("I-30C9", f"045  I --- {CTL} --:------ {CTL} 30C9 003 0007D0"),
    ("RP-2349", f"045 RP --- {CTL} 18:006402 --:------ 2349 007 0107D000FFFFFF"),
    ("RQ-2349", f"045 RQ --- 18:006402 {CTL} --:------ 2349 001 01"),
    ("W-2309", f"045  W --- 18:006402 {CTL} --:------ 2309 003 0107D0"),
    ("I-313F", f"045  I --- {CTL} --:------ {CTL} 313F 009 00FC380BAA130207E6"),
    ("RQ-313F", f"045 RQ --- 18:006402 {CTL} --:------ 313F 001 00"),
    ("W-313F", f"045  W --- 18:006402 {CTL} --:------ 313F 009 0060002916050B07E7"),
    ("RP-0404", f"045 RP --- {CTL} 18:006402 --:------ 0404 048 0120000829010368816DCFCB0980301045D1994C3E624916660956604596600516E1D285094112F566F5B80C072222A2"),
    ("W-0404", f"045  W --- 18:006402 {CTL} --:------ 0404 048 0120000829010368816DCFCB0980301045D1994C3E624916660956604596600516E1D285094112F566F5B80C072222A2"),
    ("RQ-0404", f"045 RQ --- 18:006402 {CTL} --:------ 0404 007 01200008000100"),
    ("I-1F09", f"045  I --- {CTL} --:------ {CTL} 1F09 003 FF0532"),
    ("RP-0005", f"045 RP --- {CTL} 18:006402 --:------ 0005 004 00080300"),
    ("I-0008", f"045  I --- {CTL} --:------ {CTL} 0008 002 FC64"),
]


class _Proto:
    def __init__(self, handler):
        self._msg_handler = handler
        self.calls = []

    def pause_writing(self):
        self.calls.append("pause_writing")

    def resume_writing(self):
        self.calls.append("resume_writing")


class _Transport:
    def __init__(self):
        self.calls = []

    def pause_reading(self):
        self.calls.append("pause_reading")

    def resume_reading(self):
        self.calls.append("resume_reading")


class _Dev:
    def __init__(self, msgs):
        self._msg_db = msgs
        self.id = CTL


def mk_gateway(handler, disable_sending, disable_discovery, devices):
    from ramses_rf.gateway import Gateway

    class G(Gateway):
        schema = property(lambda self: {"stub": True})
        systems = property(lambda self: [])

    g = object.__new__(G)
    g._engine_lock = threading.Lock()
    g._engine_state = None
    g._protocol = _Proto(handler)
    g._transport = _Transport()
    g._disable_sending = disable_sending
    g.config = types.SimpleNamespace(disable_discovery=disable_discovery)
    g.devices = devices
    g._zzz = None
    g._include, g._exclude, g._enforce_known_list = {}, {}, False
    g._msg_handler = handler
    return g


class Clock:
    """gateway clock for the stored messages: receipt time + an offset (solver real / Fraction)"""

    _zzz = None

    def __init__(self, off):
        self.off = off

    def bind(self, msg, symbolic):
        self.msg = msg
        self.symbolic = symbolic
        return self

    def _dt_now(self):
        if self.symbolic:
            from symx.stubs import SymInstant

            return SymInstant(self.msg.dtm, self.off)
        from datetime import timedelta as td

        return self.msg.dtm + td(seconds=float(self.off))


def mk_msg(frame, k, off, symbolic, raises=None):
    from ramses_tx.message import Message
    from ramses_tx.packet import Packet

    m = Message(Packet.from_file(T0 % k, frame))
    m._gwy = Clock(off).bind(m, symbolic)
    if raises is not None:
        # a message whose expiry test fails (the historic cases: a zero sync-cycle count-down, a payload-
        # dependent lifetime that cannot be computed): the snapshot must still leave the engine running
        class Bad(type(m)):
            @property
            def _expired(self):
                raise raises

        m.__class__ = Bad
    return m


def engine_as_before(g, handler, disable_sending, disable_discovery):
    """-> list of differences between the engine now and before the operation"""
    bad = []
    if g._engine_state is not None:
        bad.append("engine still paused (_engine_state is not None)")
    if g._protocol._msg_handler is not handler:
        bad.append("message handler not restored")
    if g._disable_sending is not disable_sending:
        bad.append(f"_disable_sending={g._disable_sending!r}")
    if g.config.disable_discovery is not disable_discovery:
        bad.append(f"disable_discovery={g.config.disable_discovery!r}")
    pr, tr = g._protocol.calls, g._transport.calls
    if pr.count("pause_writing") != (pr.count("resume_writing") if not disable_sending else pr.count("pause_writing")):
        bad.append(f"writing paused {pr.count('pause_writing')}x, resumed {pr.count('resume_writing')}x")
    if tr.count("pause_reading") != tr.count("resume_reading"):
        bad.append(f"reading paused {tr.count('pause_reading')}x, resumed {tr.count('resume_reading')}x")
    return bad
