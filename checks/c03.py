"""C03 - command builders emit valid frames of the advertised verb/code that decode back.

Every constructor registered in ``CODE_API_MAP`` is called with symbolic arguments drawn from its
documented domain *and a margin around it* (indexes -2..300 as ints and as 2-character hex text,
temperatures / setpoints k/100 as exact reals on the 0.01 grid over a range wider than the domain,
percentages on the 0.5 % grid, modes x until x duration by selector, date-time fields of the
Gregorian model, names as symbolic printable text, all 256 OpenTherm msg ids, fragment numbers and
counts 0..255, bind code lists by selector).  The returned command is decoded again by the real
``Message._from_cmd`` (the whole receive path).  Per path the solver must show:

* ``verb|code`` of the command is the key the constructor is registered under;
* the library's own decoder accepts the frame;
* each decoded field that corresponds to an argument equals the argument (to wire resolution);
* arguments outside the domain either raise or still satisfy the above - never a frame the
  decoder rejects, never other values."""
from __future__ import annotations

import os

from checks import common
from symx.runner import Query

PROPERTY = "C03"
LEVEL = "other"
EXPLANATION = __doc__
BOUNDS = {
    "quick": {"indexes": "ints -2..300 and '0X'/'FX'/'HW' text", "temperatures": "k/100, k in a range ~2x the documented domain", "names": "<= 4 symbolic printable characters", "msg ids": "0..255",
              "fragments": "number/total 0..255, 2 symbolic fragment bytes", "modes": "every mode name/number x until present/absent x duration present/absent"},
    "thorough": {"names": "<= 8 characters", "fragments": "4 symbolic fragment bytes"},
}
OUTSIDE = ["float arguments are exact reals on the wire grid here: binary floating-point rounding inside the hex_from_* helpers is C04's subject", "until given as an ISO string (dt.fromisoformat is C code)", "Command._puzzle (wall-clock content)",
           "arguments of a wrong Python type (only int/str/float/bool/None/datetime forms the signatures name)"]
STUBS = ["datetime arguments: symx.stubs.SymDateTime (Gregorian validity rules, differentially tested against datetime by selfcheck)", "Packet._from_cmd's dt.now() is the real clock (the decode path does not read it)"]
ASSUMPTIONS = ["a raised exception of any type counts as 'refused with an error'", "expected decoded fields per constructor: table in this module, validated against the repo's own test_apis_* packet/kwargs pairs by running them"]
MIN_CONCLUSIVE_FRACTION = 0.7
CTL, OTB, BDR, DHW, OUT, THM, FAN, REM, CO2, HUM = "01:145038", "10:048122", "13:049798", "07:045960", "17:123456", "03:123456", "32:155617", "37:171871", "37:123456", "37:123456"


def setup(tier):
    common.install()
    import ramses_tx.command  # noqa: F401
    import ramses_tx.message  # noqa: F401


FUNCTIONS = ["ramses_tx.command:_check_idx", "ramses_tx.command:_normalise_mode", "ramses_tx.command:_normalise_until", "ramses_tx.command:Command.from_attrs", "ramses_tx.command:Command._from_attrs",
             "ramses_tx.message:Message._from_cmd", "ramses_tx.packet:Packet._from_cmd", "ramses_tx.message:_check_msg_payload", "ramses_tx.parsers:parse_payload"]


# ------------------------------------------------------------------------------------------
# argument sources: symbolic (check) / concrete from a counterexample (replay)


class Sym:
    concrete = False

    def __init__(self, ctx):
        self.ctx = ctx
        self.vals = {}  # name -> z3 term (ints: the grid numerator k) or the concrete choice made on this path

    def int(self, name, lo, hi):
        import symx

        v = symx.sym_int(self.ctx, name, lo, hi)
        self.vals[name] = v.e
        return v

    def grid(self, name, klo, khi, den):
        """a value k/den, k integer in [klo, khi]"""
        import symx

        k = symx.sym_int(self.ctx, name, klo, khi)
        self.vals[name] = k.e
        return k / den

    def choice(self, name, options):
        import symx

        v = symx.choice(self.ctx, name, options)
        self.vals[name] = v
        return v

    def flag(self, name):
        import symx

        v = symx.flag(self.ctx, name)
        self.vals[name] = v
        return v

    def hexs(self, name, n):
        import symx

        return symx.sym_hex(self.ctx, name, n)

    def text(self, name, n):
        import symx

        return symx.sym_printable(self.ctx, name, n) if n else ""

    def dtm(self, name, with_seconds=False):
        import symx
        from symx import stubs

        y = symx.sym_int(self.ctx, name + ".y", 2000, 2099)
        mo = symx.sym_int(self.ctx, name + ".mo", 1, 12)
        d = symx.sym_int(self.ctx, name + ".d", 1, 31)
        h = symx.sym_int(self.ctx, name + ".h", 0, 23)
        mi = symx.sym_int(self.ctx, name + ".mi", 0, 59)
        s = symx.sym_int(self.ctx, name + ".s", 0, 59) if with_seconds else 0
        return stubs.SxDateTime(y, mo, d, h, mi, s)


class Cex:
    concrete = True

    def __init__(self, cex):
        self.cex = cex
        self.vals = {}

    def int(self, name, lo, hi):
        v = self.vals[name] = int(self.cex.get(name, lo))
        return v

    def grid(self, name, klo, khi, den):
        k = self.vals[name] = int(self.cex.get(name, klo))
        return k / den

    def choice(self, name, options):
        v = self.cex.get(name, None)
        for o in options:
            if o == v or repr(o) == v or str(o) == str(v):
                self.vals[name] = o
                return o
        self.vals[name] = options[-1]
        return options[-1]

    def flag(self, name):
        v = self.vals[name] = bool(self.cex.get(name, False))
        return v

    def hexs(self, name, n):
        return self.cex.get(name, "0" * n)

    def text(self, name, n):
        return self.cex.get(name, "a" * n) if n else ""

    def dtm(self, name, with_seconds=False):
        from datetime import datetime

        g = lambda k, d: int(self.cex.get(f"{name}.{k}", d))  # noqa: E731
        return datetime(g("y", 2024), g("mo", 1), g("d", 1), g("h", 0), g("mi", 0), g("s", 0) if with_seconds else 0)


def _idx_arg(S, name="idx"):
    """zone index argument in its accepted forms -> (argument, value-or-None)"""
    form = S.choice(name + ".form", ["int", "hex0", "hexF", "HW"])
    if form == "int":
        v = S.int(name, -2, 300)
        return v, v
    if form == "hex0":
        t = "0" + S.hexs(name + ".h", 1)
        return t, ("hex", t)
    if form == "hexF":
        h = S.hexs(name + ".h", 1)
        S.vals[name + ".hcode"] = h.chars[0] if hasattr(h, "chars") else ord(h)
        t = "F" + h
        return t, ("hex", t)
    return "HW", ("hex", "FA")


ZONE_MODES = ["follow_schedule", "advanced_override", "permanent_override", "countdown_override", "temporary_override"]
SYS_MODES = ["auto", "heat_off", "eco_boost", "away", "day_off", "day_off_eco", "auto_with_reset", "custom"]


def shapes():
    """name -> (map key, build(S) -> (thunk returning the Command, [(decoded key, expected, kind)]))"""
    from ramses_tx.command import Command as C

    T = {}

    def reg(name, key):
        def deco(fn):
            T[name] = (key, fn)
            return fn

        return deco

    for name, key, dst in (("get_zone_name", "RQ|0004", CTL), ("get_zone_config", "RQ|000A", CTL), ("get_zone_window_state", "RQ|12B0", CTL), ("get_zone_setpoint", "RQ|2309", CTL), ("get_zone_mode", "RQ|2349", CTL),
                           ("get_zone_temp", "RQ|30C9", CTL), ("get_mix_valve_params", "RQ|1030", CTL), ("get_relay_demand", "RQ|0008", BDR)):

        def b(S, name=name, dst=dst):
            arg, val = _idx_arg(S)
            return (lambda: getattr(C, name)(dst, arg)), [("@idx", val, "idx")]

        T[name] = (key, b)
    for name, key, dst in (("get_schedule_version", "RQ|0006", CTL), ("get_system_language", "RQ|0100", CTL), ("get_dhw_params", "RQ|10A0", CTL), ("get_tpi_params", "RQ|1100", BDR), ("get_dhw_temp", "RQ|1260", CTL),
                           ("get_dhw_mode", "RQ|1F41", CTL), ("get_system_mode", "RQ|2E04", CTL), ("get_system_time", "RQ|313F", CTL)):
        T[name] = (key, lambda S, name=name, dst=dst: ((lambda: getattr(C, name)(dst)), []))

    @reg("put_weather_temp", " I|0002")
    def _(S):
        t = S.grid("t", -40000, 70000, 100)
        return (lambda: C.put_weather_temp(OUT, t)), [("temperature", t, "num")]

    @reg("put_outdoor_temp", " I|1290")
    def _(S):
        t = S.grid("t", -40000, 70000, 100)
        return (lambda: C.put_outdoor_temp(OUT, t)), [("outdoor_temp", t, "num")]

    @reg("put_dhw_temp", " I|1260")
    def _(S):
        t = S.grid("t", -40000, 70000, 100)
        return (lambda: C.put_dhw_temp(DHW, t)), [("temperature", t, "num")]

    @reg("put_sensor_temp", " I|30C9")
    def _(S):
        t = S.grid("t", -40000, 70000, 100)
        return (lambda: C.put_sensor_temp(THM, t)), [("temperature", t, "num")]

    @reg("put_co2_level", " I|1298")
    def _(S):
        v = S.int("co2", -10, 70000)
        return (lambda: C.put_co2_level(CO2, v)), [("co2_level", v, "num")]

    @reg("put_indoor_humidity", " I|12A0")
    def _(S):
        v = S.grid("rh", -10, 300, 100)
        return (lambda: C.put_indoor_humidity(HUM, v)), [("indoor_humidity", v, "num")]

    @reg("put_presence_detected", " I|2E10")
    def _(S):
        v = S.choice("presence", [True, False, None])
        return (lambda: C.put_presence_detected(CO2, v)), [("presence_detected", v, "bool")]

    @reg("put_actuator_state", " I|3EF0")
    def _(S):
        v = S.grid("mod", -10, 450, 200)
        return (lambda: C.put_actuator_state(BDR, v)), [("modulation_level", v, "num")]

    @reg("put_actuator_cycle", "RP|3EF1")
    def _(S):
        v = S.grid("mod", -10, 450, 200)
        a, b = S.int("countdown", -5, 70000), S.int("cycle", -5, 70000)
        return (lambda: C.put_actuator_cycle(BDR, CTL, v, a, cycle_countdown=b)), [("modulation_level", v, "num"), ("actuator_countdown", a, "num"), ("cycle_countdown", b, "num")]

    @reg("set_zone_name", " W|0004")
    def _(S):
        arg, val = _idx_arg(S)
        n = S.choice("nlen", [0, 1, 4])
        name = S.text("name", n)
        return (lambda: C.set_zone_name(CTL, arg, name)), [("@idx", val, "idx"), ("name", name, "name")]

    @reg("set_zone_config", " W|000A")
    def _(S):
        arg, val = _idx_arg(S)
        lo, hi = S.grid("min", -1000, 4000, 100), S.grid("max", -1000, 5000, 100)
        a, b, c = S.flag("local_override"), S.flag("openwindow_function"), S.flag("multiroom_mode")
        return (lambda: C.set_zone_config(CTL, arg, min_temp=lo, max_temp=hi, local_override=a, openwindow_function=b, multiroom_mode=c)), [
            ("@idx", val, "idx"), ("min_temp", lo, "num"), ("max_temp", hi, "num"), ("local_override", a, "bool"), ("openwindow_function", b, "bool"), ("multiroom_mode", c, "bool")]

    @reg("set_zone_setpoint", " W|2309")
    def _(S):
        arg, val = _idx_arg(S)
        t = S.grid("t", -40000, 70000, 100)
        return (lambda: C.set_zone_setpoint(CTL, arg, t)), [("@idx", val, "idx"), ("setpoint", t, "num")]

    @reg("set_zone_mode", " W|2349")
    def _(S):
        arg, val = _idx_arg(S)
        mode = S.choice("mode", [None] + ZONE_MODES + [0, 1, 2, 3, 4, 5])
        sp = S.grid("sp", -1000, 7000, 100) if S.flag("has_sp") else None
        until = S.dtm("until") if S.flag("has_until") else None
        dur = S.int("dur", -2, 70000) if S.flag("has_dur") else None
        exp = [("@idx", val, "idx")]
        if sp is not None:
            exp.append(("setpoint", sp, "num?"))
        return (lambda: C.set_zone_mode(CTL, arg, mode=mode, setpoint=sp, until=until, duration=dur)), exp + [("mode", mode, "zmode"), ("until", until, "iso?"), ("duration", dur, "num?")]

    @reg("set_dhw_mode", " W|1F41")
    def _(S):
        mode = S.choice("mode", [None] + ZONE_MODES + [0, 2, 3, 4])
        active = S.choice("active", [None, True, False])
        until = S.dtm("until") if S.flag("has_until") else None
        dur = S.int("dur", -2, 70000) if S.flag("has_dur") else None
        return (lambda: C.set_dhw_mode(CTL, mode=mode, active=active, until=until, duration=dur)), [("mode", mode, "zmode"), ("active", active, "bool?"), ("until", until, "iso?"), ("duration", dur, "num?")]

    @reg("set_dhw_params", " W|10A0")
    def _(S):
        sp, ov, df = S.grid("sp", 0, 12000, 100), S.int("overrun", -2, 300), S.grid("diff", -100, 3000, 100)
        return (lambda: C.set_dhw_params(CTL, setpoint=sp, overrun=ov, differential=df)), [("setpoint", sp, "num"), ("overrun", ov, "num"), ("differential", df, "num")]

    @reg("set_mix_valve_params", " W|1030")
    def _(S):
        arg, val = _idx_arg(S)
        a, b, c, d = S.int("max_flow", -2, 300), S.int("min_flow", -2, 300), S.int("valve_run", -2, 300), S.int("pump_run", -2, 300)
        return (lambda: C.set_mix_valve_params(CTL, arg, max_flow_setpoint=a, min_flow_setpoint=b, valve_run_time=c, pump_run_time=d)), [
            ("@idx", val, "idx"), ("max_flow_setpoint", a, "num"), ("min_flow_setpoint", b, "num"), ("valve_run_time", c, "num"), ("pump_run_time", d, "num")]

    @reg("set_tpi_params", " W|1100")
    def _(S):
        dom = S.choice("domain", ["FC", "00", None])
        cr = S.int("cycle_rate", -1, 20)
        on, off = S.grid("min_on", -4, 200, 4), S.grid("min_off", -4, 200, 4)
        pb = S.grid("pbw", -100, 1000, 100)
        return (lambda: C.set_tpi_params(CTL, dom, cycle_rate=cr, min_on_time=on, min_off_time=off, proportional_band_width=pb)), [
            ("cycle_rate", cr, "num"), ("min_on_time", on, "num"), ("min_off_time", off, "num"), ("proportional_band_width", pb, "num?")]

    @reg("set_system_mode", " W|2E04")
    def _(S):
        mode = S.choice("mode", SYS_MODES + [0, 7, 8])
        until = S.dtm("until") if S.flag("has_until") else None
        return (lambda: C.set_system_mode(CTL, mode, until=until)), [("system_mode", mode, "smode"), ("until", until, "iso?")]

    @reg("set_system_time", " W|313F")
    def _(S):
        d = S.dtm("dtm", with_seconds=True)
        dst = S.flag("is_dst")
        return (lambda: C.set_system_time(CTL, d, is_dst=dst)), [("datetime", d, "iso"), ("is_dst", dst, "bool0")]

    @reg("get_system_log_entry", "RQ|0418")
    def _(S):
        v = S.int("log_idx", -2, 300) if S.flag("as_int") else ("0" + S.hexs("log.h", 1))
        return (lambda: C.get_system_log_entry(CTL, v)), [("log_idx", v if not isinstance(v, str) else ("hex", v), "idx")]

    @reg("get_opentherm_data", "RQ|3220")
    def _(S):
        v = S.choice("msg_id", list(range(-1, 258)))  # a selector: parity() loops on the bits (concrete per path)
        S.vals["msg_id"] = v
        return (lambda: C.get_opentherm_data(OTB, v)), [("msg_id", v, "num")]

    @reg("get_schedule_fragment", "RQ|0404")
    def _(S):
        arg, val = _idx_arg(S)
        n, t = S.int("frag", -1, 256), S.int("total", -1, 256)
        return (lambda: C.get_schedule_fragment(CTL, arg, n, t)), [("@idx", val, "idx"), ("frag_number", n, "num"), ("total_frags", t, "num0")]

    @reg("set_schedule_fragment", " W|0404")
    def _(S):
        arg, val = _idx_arg(S)
        n, t = S.int("frag", -1, 256), S.int("total", -1, 256)
        k = S.choice("flen", [1, 2, 41])
        frag = S.hexs("fragment", 4 if k <= 2 else 4) + ("AB" * (k - 2) if k > 2 else "")
        frag = frag[: 2 * k]
        return (lambda: C.set_schedule_fragment(CTL, arg, n, t, frag)), [("@idx", val, "idx"), ("frag_number", n, "num"), ("total_frags", t, "num0"), ("fragment", frag, "str"), ("frag_length", k, "num")]

    @reg("set_bypass_position", " W|22F7")
    def _(S):
        which = S.choice("arg", ["position", "mode"])
        if which == "position":
            v = S.grid("pos", -10, 300, 200)
            return (lambda: C.set_bypass_position(FAN, bypass_position=v, src_id=REM)), [("bypass_position", v, "num?")]
        m = S.choice("bmode", ["auto", "off", "on"])
        return (lambda: C.set_bypass_position(FAN, bypass_mode=m, src_id=REM)), [("bypass_mode", m, "str")]

    @reg("set_fan_mode", " I|22F1")
    def _(S):
        m = S.choice("fan_mode", ["away", "low", "medium", "high", "auto", 0, 1, 2, 3, 4, "00", "04"])
        return (lambda: C.set_fan_mode(FAN, m, src_id=REM)), [("@fan_mode", m, "fanmode")]

    @reg("set_fan_param", " W|2411")
    def _(S):
        p = S.choice("param", ["3F", "75", "52"])
        v = S.int("value", -1, 300)
        return (lambda: C.set_fan_param(FAN, p, v, src_id=REM)), [("parameter", p, "str"), ("value", v, "num")]

    @reg("put_bind", " I|1FC9")
    def _(S):
        codes = S.choice("codes", [[], ["30C9"], ["30C9", "0008"], ["22F1", "22F3"]])
        idx = S.choice("bidx", ["00", "01", None])
        return (lambda: C.put_bind(" I", "22:123456", list(codes), idx=idx)), [("@bind", codes, "bind")]

    @reg("put_bind_w", " W|1FC9")
    def _(S):
        codes = S.choice("codes", [[], ["30C9"], ["30C9", "0008"]])
        return (lambda: C.put_bind(" W", "01:145038", list(codes), dst_id="22:123456", idx="00")), [("@bind", codes, "bind")]

    return T


def api_name(shape_name):
    return {"put_bind_w": "put_bind"}.get(shape_name, shape_name)


# ------------------------------------------------------------------------------------------
# oracle (used symbolically by the check and concretely by the replay)

ZMODE = {"follow_schedule": "00", "advanced_override": "01", "permanent_override": "02", "countdown_override": "03", "temporary_override": "04", 0: "00", 1: "01", 2: "02", 3: "03", 4: "04"}
SMODE = {0: "auto", 7: "custom"}


def _or(*xs):
    import z3

    if any(x is True for x in xs):
        return True
    zs = [x for x in xs if x is not False]
    if not zs:
        return False
    return z3.Or(zs) if any(z3.is_expr(x) for x in zs) else any(zs)


def _and(*xs):
    import z3

    if any(x is False for x in xs):
        return False
    zs = [x for x in xs if x is not True]
    if not zs:
        return True
    return z3.And(zs) if any(z3.is_expr(x) for x in zs) else all(zs)


def _in(v, vals):
    return _or(*[v == x for x in vals])


def known_regions(name, what, v):
    """{signature: predicate} - regions of the argument space in which a recorded finding
    (known_findings.json) explains a failure of obligation ``what`` of constructor ``name``.
    ``v``: name -> z3 term / concrete value (the same rules serve the solver and the replay)."""
    R = {}
    form = v.get("idx.form")
    temp_args = {"put_weather_temp": "t", "put_outdoor_temp": "t", "put_dhw_temp": "t", "put_sensor_temp": "t", "set_zone_setpoint": "t", "set_zone_mode": "sp", "set_dhw_params": "sp"}
    if form is not None and what in ("decoder-accepts", "index-carried"):
        # after the _check_idx fix: 00..0F and F0..FF pass the constructor; the zone-only codes' regexes refuse the F-range
        sched = name in ("get_schedule_fragment", "set_schedule_fragment")  # FA / 'HW' is the DHW schedule there: valid
        if form == "hexF" or (form == "HW" and not sched):
            R["domain id (Fx/HW) accepted for a zone-indexed code whose decoder refuses it"] = (v["idx.hcode"] != 65) if sched and "idx.hcode" in v else True
        elif form == "int" and "idx" in v:
            R["domain id (Fx/HW) accepted for a zone-indexed code whose decoder refuses it"] = _and(v["idx"] >= 0xF0, v["idx"] != 0xFA) if sched else v["idx"] >= 0xF0
    if name in temp_args and temp_args[name] in v:
        k = v[temp_args[name]]
        if what.endswith("-carried"):
            R["a temperature that encodes to a sentinel word (7FFF/7EFF/31FF) decodes as not-available"] = _in(k, (12799, 32767, 32511))
        R["a temperature of -273.15 or below is encoded into a frame the decoder rejects (or reads as a sensor fault)"] = k <= (-27300 if name == "put_outdoor_temp" else -27315)
    if name == "get_opentherm_data" and what == "decoder-accepts":
        from ramses_tx.opentherm import OPENTHERM_MESSAGES

        R["get_opentherm_data accepts msg ids that are not in OPENTHERM_MESSAGES (or outside 0..255); the decoder rejects them"] = v.get("msg_id") not in OPENTHERM_MESSAGES
    if name == "get_mix_valve_params" and what == "decoder-accepts":
        R["RQ|1030 has no entry in CODES_SCHEMA: the decoder rejects what get_mix_valve_params builds"] = True
    if name == "get_relay_demand" and what == "decoder-accepts" and form is not None:
        R["RQ|0008 schema only admits payload 00: get_relay_demand with a non-zero zone index is rejected"] = True
    if name == "put_co2_level" and what.endswith("-carried"):
        R["a value that encodes to the sentinel word 7FFF decodes as not-available"] = v["co2"] == 32767
        R["a CO2 level of 0x8000 or more is decoded as a sensor-fault code"] = v["co2"] >= 32768
    if name == "put_presence_detected" and what == "decoder-accepts":
        R["the I|2E10 frames put_presence_detected builds are rejected (True: 00C8 not in the schema; False/None: parser assert)"] = True
    if name == "put_actuator_state" and what == "decoder-accepts":
        R["I|3EF0 3-byte schema admits only 00/C8: any other modulation level is rejected"] = True
    if name == "put_actuator_cycle":
        if what == "decoder-accepts":
            R["RP|3EF1 parser asserts modulation in {00, C8} (and FF tail): other levels are rejected"] = True
        if what.endswith("-carried"):
            R["a countdown of 0x7FFF or more decodes as not-available / a different value"] = _or(v["countdown"] >= 32767, v["cycle"] >= 32767)
    if name == "set_dhw_mode" and what == "decoder-accepts":
        R["set_dhw_mode with a duration emits the countdown where the W|1F41 schema wants FFFFFF"] = v.get("has_dur") is True
    if name in ("set_dhw_mode", "set_zone_mode") and what == "decoder-accepts":
        R["temporary_override without until: _normalise_until's switch to advanced_override is lost, the frame says 04 with no date"] = (v.get("mode") in ("temporary_override", 4)) and v.get("has_until") is False
    if name == "set_tpi_params" and what == "decoder-accepts":
        R["set_tpi_params accepts cycle rates / on-off times / band widths that parser_1100's range asserts reject"] = True
    if name == "get_system_log_entry" and what == "decoder-accepts" and "log_idx" in v:
        R["get_system_log_entry accepts a log index above 63 (3F), which the RQ|0418 schema refuses"] = _or(v["log_idx"] > 63, v["log_idx"] < 0)
    if name in ("get_schedule_fragment", "set_schedule_fragment") and "frag" in v:
        if what == "decoder-accepts":
            R["schedule fragment number/total outside 0..255 (or fragment 0) is formatted into a frame the decoder rejects"] = _or(v["frag"] > 255, v["total"] > 255, v["frag"] < 1, v["total"] < 0)
        if what.endswith("-carried"):
            R["total_frags 255 (FF) decodes as unknown"] = v["total"] == 255
    if name == "set_fan_param" and what.endswith("-carried"):
        R["set_fan_param wraps a value above 255 into another value"] = _or(v["value"] > 255, v["value"] < 0)
    return R


def _eq(a, b):
    from symx.strings import SymStr, sx_eq

    if isinstance(a, (str, SymStr)) or isinstance(b, (str, SymStr)):
        if not (isinstance(a, (str, SymStr)) and isinstance(b, (str, SymStr))):
            return False
        return len(a) == len(b) and sx_eq(a, b)
    return a == b


def _iso(d):
    return d.isoformat(timespec="seconds") if hasattr(d, "isoformat") else d


def compare(chk, name, cmd, payload, expect):
    """chk(cond, label, info): one obligation per argument that has a decoded counterpart"""
    from symx.values import sx_int

    if isinstance(payload, list):
        flat = {}
        for e in payload:
            if isinstance(e, dict):
                flat.update(e)
        pl = flat
    else:
        pl = payload
    for key, exp, kind in expect:
        if kind == "idx":
            got = pl.get("zone_idx", pl.get("domain_id", pl.get("dhw_idx", pl.get("log_idx"))))
            if got is None:
                # the decoder has no index field for this request: compare the frame's index byte
                got = cmd.payload[4:6] if str(cmd.code) == "0418" else cmd.payload[:2]
            if got == "HW":
                got = "FA"
            if isinstance(exp, tuple):
                chk(_eq(got, exp[1]), f"C03:{name}:index-carried", None)
            else:
                chk(sx_int(got, 16) == exp, f"C03:{name}:index-carried", None)
            continue
        if kind == "bind":
            binds = payload.get("bindings") if isinstance(payload, dict) else payload
            got_codes = [e[1] for e in binds] if isinstance(binds, list) else None
            chk(got_codes is not None and all(c in got_codes for c in exp), f"C03:{name}:bind-codes-carried", f"{got_codes}")
            continue
        if kind == "fanmode":
            continue  # vendor-scheme dependent: acceptance by the decoder is the claim
        if key not in pl:
            if kind == "iso?" and exp is not None:
                # a date-time was passed and accepted, yet the frame the decoder sees carries none: the value is lost
                chk(False, f"C03:{name}:{key}-carried", "date-time argument dropped")
                continue
            if kind.endswith("?") or kind == "num0" or exp is None:
                continue  # the decoder has no field for it in this form
            chk(False, f"C03:{name}:{key}-carried", "field missing")
            continue
        got = pl[key]
        if kind in ("num", "num?", "num0"):
            if exp is None:
                continue
            if kind == "num0" and got is None:
                chk(exp == 0, f"C03:{name}:{key}-carried", None)  # 0 = 'unknown' by the constructor's contract
                continue
            chk(got is not None and not isinstance(got, (str, bool)) and (got == exp), f"C03:{name}:{key}-carried", None)
        elif kind in ("bool", "bool?", "bool0"):
            if exp is None:
                continue
            if kind == "bool0" and got is None:
                got = False  # the decoder reports an unset flag as None
            chk(got is exp or got == exp, f"C03:{name}:{key}-carried", None)
        elif kind in ("str",):
            chk(_eq(got, exp), f"C03:{name}:{key}-carried", None)
        elif kind == "name":
            e2 = exp.strip() if hasattr(exp, "strip") else exp
            chk(_eq(got if got is not None else "", e2), f"C03:{name}:{key}-carried", None)
        elif kind in ("iso", "iso?"):
            if exp is None:
                continue
            chk(got is not None and _eq(got, _iso(exp)), f"C03:{name}:{key}-carried", None)
        elif kind == "zmode":
            if exp is None:
                continue
            want = ZMODE.get(exp)
            names = {v: k for k, v in ZMODE.items() if isinstance(k, str)}
            chk(want is not None and got == names[want], f"C03:{name}:{key}-carried", f"{got}")
        elif kind == "smode":
            want = exp if isinstance(exp, str) else None
            if want is not None:
                chk(got == want, f"C03:{name}:{key}-carried", f"{got}")


def h_ctor(ctx, name):
    from ramses_tx.command import CODE_API_MAP
    from ramses_tx.message import Message

    key, build = shapes()[name]
    S = Sym(ctx)
    try:
        thunk, expect = build(S)
    except ValueError:
        return "no-such-date"  # the symbolic date-time fields do not form a date on this path
    try:
        cmd = thunk()
    except Exception as e:  # noqa: BLE001  refused with an error
        return f"refused:{type(e).__name__}"
    fn = CODE_API_MAP.get(key)
    ctx.check(fn is not None and fn.__name__ == api_name(name), f"C03:{name}:registered-under-this-key", info=key)
    ctx.check(f"{cmd.verb}|{cmd.code}" == key, f"C03:{name}:verb-code-as-registered", info=f"{cmd.verb}|{cmd.code}")
    def chk(cond, label, info=None):
        what = label.split(":", 2)[2]
        regs = {k: (p if not isinstance(p, bool) else z3.BoolVal(p)) for k, p in known_regions(name, what, S.vals).items() if p is not False}
        if isinstance(cond, bool) and not cond and regs:
            cond = z3.BoolVal(False)
        ctx.check(cond, label, info=info, regions=regs or None)

    import z3

    try:
        msg = Message._from_cmd(cmd)
    except Exception as e:  # noqa: BLE001
        chk(False, f"C03:{name}:decoder-accepts", type(e).__name__)
        return f"decoder-rejects:{type(e).__name__}"
    ctx.check(True, f"C03:{name}:decoder-accepts")
    compare(chk, name, cmd, msg.payload, expect)
    return "ok"


def queries(tier, seed):
    qs = []
    for name in shapes():
        heavy = name in ("set_zone_mode", "set_dhw_mode", "set_zone_config", "set_schedule_fragment", "set_zone_name", "set_system_time", "set_system_mode")
        qs.append(Query(f"ctor[{name}]", lambda c, n=name: h_ctor(c, n), {"h": "ctor", "name": name}, group=f"ctor:{name}", max_secs=600 if tier == "thorough" else 200, max_paths=100_000, weight=10 if heavy else 1, split_depth=(5 if heavy else None)))

    def canary(c):
        import symx
        from ramses_tx.command import Command as C
        from ramses_tx.message import Message

        t = symx.sym_int(c, "t", 0, 3000) / 100
        m = Message._from_cmd(C.set_zone_setpoint(CTL, 1, t))
        c.check(m.payload["setpoint"] <= 20, "canary")

    qs.append(Query("canary:setpoint", canary, canary=True))
    only = os.environ.get("C03_ONLY")
    if only:
        qs = [q for q in qs if only in q.name or q.canary]
    return qs


# ------------------------------------------------------------------------------------------


def replay(item):
    common.plain_imports()
    from ramses_tx.command import CODE_API_MAP
    from ramses_tx.message import Message

    name = item["params"]["name"]
    key, build = shapes()[name]
    S = Cex(item["cex"])
    thunk, expect = build(S)
    try:
        cmd = thunk()
    except Exception as e:  # noqa: BLE001
        return {"reproduced": False, "observed": f"{name}: refused {type(e).__name__}: {e}", "signature": None}
    bad = []
    if f"{cmd.verb}|{cmd.code}" != key:
        bad.append(("verb-code-as-registered", f"builds {cmd.verb}|{cmd.code}, registered under {key}"))
    fn = CODE_API_MAP.get(key)
    if fn is None or fn.__name__ != api_name(name):
        bad.append(("registered-under-this-key", f"{key} -> {getattr(fn, '__name__', None)}"))
    try:
        msg = Message._from_cmd(cmd)
        pl = msg.payload

        def chk(cond, label, info):
            ok = cond if isinstance(cond, bool) else bool(cond)
            if not ok:
                bad.append((label.split(":", 2)[2], f"{info or ''}"))

        def _f(x):  # floats: compare at wire resolution
            return round(x, 6) if isinstance(x, float) else x

        exp2 = [(k, _f(e), kind) for k, e, kind in expect]
        pl2 = {k: _f(v) for k, v in pl.items()} if isinstance(pl, dict) else pl
        compare(chk, name, cmd, pl2, exp2)
    except Exception as e:  # noqa: BLE001
        pl = None
        bad.append(("decoder-accepts", f"{type(e).__name__}: {str(e)[:80]}"))
    want = item["label"].split(":", 2)[2]
    hit = [b for b in bad if b[0] == want] or bad
    args = {k: v for k, v in item["cex"].items()}
    sig = None
    if hit:
        sig = f"{name}: {hit[0][0]}"
        what = hit[0][0]
        for k, p in known_regions(name, what if not what.endswith("-carried") or what == "index-carried" else what, S.vals).items():
            if p is True or (p is not False and bool(p)):
                sig = f"{name}: {k}"
                break
    return {"reproduced": bool(hit), "observed": f"{name}({args}) -> {cmd.verb}|{cmd.code} {cmd.payload} -> {pl} :: {hit[:2]}"[:700], "signature": sig}
