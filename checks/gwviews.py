"""C13, views clause - after any received packet every public view still answers and the engine keeps running.

A *real* ``ramses_rf.Gateway`` (constructed normally, no serial port: a stub transport that only supplies the
clock of a packet-log source) is first fed a concrete history - a prefix of one of the repository's own
system logs (``tests/tests/systems/*/packet.log``, read on every run) - through the real
``Gateway._msg_handler`` / ``dispatcher.process_msg`` / entity ``_handle_msg`` chain on the virtual loop.
Then ONE MORE packet arrives: a frame of that history whose payload has a window of solver-chosen hex
characters (so: any value the schema regex admits at that position - zero count-downs, FF/7F sentinels,
maximal indexes, other zone / device-class bytes).  Per path the harness then reads every public view -
gateway schema / params / status / known_list / get_state(), and schema / params / status / traits of every
device, system, zone and DHW - and obliges: none of them raises; afterwards the engine is not paused and a
further good packet is still routed to its device.

Symbolic values flow through the real parsers, the dispatcher and the entity handlers into the stores the
views read; the solver enumerates the equivalence classes of the window (paths), so a class of inputs that
makes one view raise is a satisfying assignment, not a sampling accident.  Counterexamples are replayed on
the plain package on a real asyncio loop."""
from __future__ import annotations

import glob
import os

T_AFTER = 7  # seconds after the last history packet at which the extra packet arrives


def repo_root():
    src = os.environ.get("SYMX_SRC_ROOT") or "/repo/src"
    return os.path.dirname(os.path.abspath(src))


def read_log(path):
    out = []
    for ln in open(path, encoding="utf-8", errors="replace"):
        ln = ln.rstrip("\n")
        if len(ln) < 70 or ln.lstrip().startswith("#"):
            continue
        dtm, frame = ln[:26], ln[27:].split("#")[0].split("<")[0].rstrip()
        if len(frame) < 50 or frame[4:6].strip() not in ("I", "RQ", "RP", "W"):
            continue
        out.append((dtm.replace(" ", "T"), frame))
    return out


# history prefixes: name -> log file under tests/tests ; tiers: (name, number of lines kept, eavesdropping modes)
LOGS = {
    "heat_simple": "systems/heat_simple/packet.log", "heat_otb_00": "systems/heat_otb_00/packet.log", "heat_ufc_01": "systems/heat_ufc_01/packet.log",
    "_hvac_nuaire": "systems/_hvac_nuaire/packet.log", "heat_ufc_00": "systems/heat_ufc_00/packet.log", "heat_zxdavb": "systems/heat_zxdavb/packet.log",
    "_heat_trv_00": "systems/_heat_trv_00/packet.log", "eav_hvac": "eavesdrop_dev_class/hvac/packet.log", "eav_zone_sensors": "eavesdrop_schema/zone_sensors_003/packet.log",
    "eav_app_cntrl": "eavesdrop_schema/app_cntrl/packet.log", "eav_trv_actuators": "eavesdrop_schema/trv_actuators/packet.log",
}
BASES_QUICK = [("heat_simple", 40, (False,)), ("heat_otb_00", 45, (False,)), ("heat_ufc_01", 45, (False,)), ("_hvac_nuaire", 33, (False,)), ("eav_hvac", 45, (True,))]
BASES_THOROUGH = [("heat_simple", 40, (False, True)), ("heat_otb_00", 90, (False, True)), ("heat_ufc_01", 90, (False, True)), ("_hvac_nuaire", 33, (False, True)), ("heat_ufc_00", 90, (False,)),
                  ("heat_zxdavb", 90, (False,)), ("_heat_trv_00", 90, (False,)), ("eav_hvac", 45, (True,)), ("eav_zone_sensors", 60, (True,)), ("eav_app_cntrl", 19, (True,)), ("eav_trv_actuators", 16, (True,))]


def load_base(name, n):
    p = os.path.join(repo_root(), "tests", "tests", LOGS[name])
    return read_log(p)[:n] if os.path.exists(p) else []


def bases(tier):
    out = []
    for name, n, eavs in BASES_THOROUGH if tier == "thorough" else BASES_QUICK:
        ls = load_base(name, n)
        if ls:
            out.append((name, ls, eavs))
    return out


class StubTransport:
    """what a packet-log source gives the gateway: the clock is the time stamp of the newest packet"""

    def __init__(self):
        self.now = None

    def _dt_now(self):
        return self.now

    def pause_reading(self):
        pass

    def resume_reading(self):
        pass

    def get_extra_info(self, name, default=None):
        return default

    def close(self):
        pass


def _dtm_plus(dtm, secs):
    from datetime import datetime, timedelta

    return (datetime.fromisoformat(dtm) + timedelta(seconds=secs)).isoformat(timespec="microseconds")


def view_thunks(gwy):
    """-> [(name, thunk)] for every public view (entity lists are re-read: the extra packet may add entities)"""
    out = [("Gateway.schema", lambda: gwy.schema), ("Gateway.params", lambda: gwy.params), ("Gateway.status", lambda: gwy.status),
           ("Gateway.known_list", lambda: gwy.known_list), ("Gateway._config", lambda: gwy._config)]
    for d in list(gwy.devices):
        n = type(d).__name__
        out += [(f"{n}.schema", lambda d=d: d.schema), (f"{n}.params", lambda d=d: d.params), (f"{n}.status", lambda d=d: d.status), (f"{n}.traits", lambda d=d: d.traits)]
    for s in list(gwy.systems):
        n = type(s).__name__
        out += [(f"{n}.schema", lambda s=s: s.schema), (f"{n}.params", lambda s=s: s.params), (f"{n}.status", lambda s=s: s.status)]
        for z in list(getattr(s, "zones", [])):
            zn = type(z).__name__
            out += [(f"{zn}.schema", lambda z=z: z.schema), (f"{zn}.params", lambda z=z: z.params), (f"{zn}.status", lambda z=z: z.status)]
        dhw = getattr(s, "dhw", None)
        if dhw is not None:
            out += [("DhwZone.schema", lambda: dhw.schema), ("DhwZone.params", lambda: dhw.params), ("DhwZone.status", lambda: dhw.status)]
    out.append(("Gateway.get_state", lambda: gwy.get_state()))
    out.append(("Gateway.get_state(include_expired)", lambda: gwy.get_state(include_expired=True)))
    return out


class Runner:
    """drives one episode; ``symbolic`` = on the virtual loop under symx, else plain asyncio loop"""

    def __init__(self, symbolic, eavesdrop=False):
        self.symbolic = symbolic
        if symbolic:
            from symx.vloop import VLoop

            self.loop = VLoop(0)
        else:
            import asyncio

            self.loop = asyncio.new_event_loop()
        from asyncio import events

        from ramses_rf import Gateway

        events._set_running_loop(self.loop)
        try:
            self.gwy = Gateway(None, input_file=open(os.devnull), loop=self.loop, config={"disable_discovery": True, "enforce_known_list": False, "enable_eavesdrop": bool(eavesdrop)})
        finally:
            events._set_running_loop(None)
        self.tx = StubTransport()
        self.gwy._transport = self.tx
        self.loop_errors = []
        if not symbolic:
            self.loop.set_exception_handler(lambda lp, c: self.loop_errors.append(c))

    def spin(self):
        if self.symbolic:
            self.loop.run(horizon=0)
        else:
            import asyncio

            async def _tick():
                for _ in range(5):
                    await asyncio.sleep(0)

            self.loop.run_until_complete(_tick())

    def feed(self, dtm, frame):
        """-> 'handled' | 'rejected' (the invalid-packet family) ; anything else propagates"""
        from asyncio import events

        from ramses_tx import exceptions as exc
        from ramses_tx.message import Message
        from ramses_tx.packet import Packet

        try:
            pkt = Packet.from_file(dtm, frame)
            msg = Message(pkt)
        except (exc.PacketInvalid, ValueError):
            return "rejected", None
        self.tx.now = pkt.dtm
        events._set_running_loop(self.loop)
        try:
            self.gwy._msg_handler(msg)
        finally:
            events._set_running_loop(None)
        self.spin()
        return "handled", msg

    def close(self):
        if not self.symbolic:
            self.loop.close()


def episode(run, history, extra_dtm, extra_frame, check, at=None, probe=None):
    """feed history, then the extra frame (at=None) - or the history with the frame at index ``at`` replaced by the
    extra frame (a field mutation inside the history) - then read all views.  check(cond, label, info)"""
    outcome = None
    for i, (dtm, frame) in enumerate(history):
        try:
            o, _ = run.feed(dtm, extra_frame if i == at else frame)
        except Exception as e:  # noqa: BLE001  the message handler itself raised: the engine's receive path is broken
            check(False, "C13:a-received-packet-is-handled-without-raising", f"{type(e).__name__}: {str(e)[:80]}")
            return f"handler raises {type(e).__name__}", None
        if i == at:
            outcome = o
    if at is None:
        try:
            outcome, _ = run.feed(extra_dtm, extra_frame)
        except Exception as e:  # noqa: BLE001
            check(False, "C13:a-received-packet-is-handled-without-raising", f"{type(e).__name__}: {str(e)[:80]}")
            return f"handler raises {type(e).__name__}", None
    gwy = run.gwy
    for name, thunk in view_thunks(gwy):
        try:
            thunk()
        except Exception as e:  # noqa: BLE001
            check(False, "C13:every-view-answers", f"{name} raised {type(e).__name__}: {str(e)[:80]}")
            return f"{name} raises {type(e).__name__}", name
    check(True, "C13:every-view-answers", None)
    check(gwy._engine_state is None and gwy._protocol._msg_handler is not None, "C13:engine-running-after-the-views", None)
    # the engine still tracks: a further good packet, handed over the way the protocol does it, reaches its device
    # (``probe`` is a frame of the history from another device which - in a control run without the extra packet -
    # is stored by its device when it arrives again later)
    if probe is not None:
        from asyncio import events

        from ramses_tx.message import Message
        from ramses_tx.packet import Packet

        pkt = Packet.from_file(_dtm_plus(extra_dtm, 5), probe)
        msg = Message(pkt)
        run.tx.now = pkt.dtm
        handler = gwy._protocol._msg_handler
        events._set_running_loop(run.loop)
        try:
            handler(msg)
        except Exception as e:  # noqa: BLE001
            check(False, "C13:a-later-good-packet-is-still-handled", f"{type(e).__name__}: {str(e)[:80]}")
            return "later packet raises", None
        finally:
            events._set_running_loop(None)
        run.spin()
        dev = gwy.device_by_id.get(msg.src.id)
        ok = dev is not None and any(m is msg for m in dev._msg_db)
        check(ok, "C13:a-later-good-packet-is-still-handled", f"{probe[4:6]}|{probe[41:45]} from {msg.src.id} not stored")
    return outcome, None


def h_views(ctx, bname, lines, idx, off, w, eavesdrop, mutate=False, probe=None, frame=None):
    import symx

    if frame is None:
        frame = lines[idx][1]
    head, pay = frame[:50], frame[50:]
    win = symx.sym_hex(ctx, "w", w)
    extra = head + pay[:off] + win + pay[off + w:]
    run = Runner(True, eavesdrop)
    out, _ = episode(run, lines, _dtm_plus(lines[-1][0], T_AFTER), extra, ctx.check, at=idx if mutate else None, probe=probe)
    return out


def candidates(lines, id_windows):
    """(idx, off, w) for one representative of each (verb, code, src type, dst type, length, leading index) of the history"""
    seen, out = set(), []
    for i, (dtm, frame) in enumerate(lines):
        verb, code, pay = frame[4:6], frame[41:45], frame[50:]
        key = (verb, code, frame[11:13], frame[21:23], len(pay), pay[:4] if code in ("0005", "000C") else pay[:2])
        if key in seen or not pay:
            continue
        seen.add(key)
        for off in range(0, len(pay), 4):
            w = min(4, len(pay) - off)
            if not id_windows and code in ("0005", "000C", "1FC9", "0418", "3EF0", "10E0", "0004", "0100", "0404") and off >= 4:
                # windows over embedded device ids / text: thorough tier only (every id byte forks over the device classes)
                continue
            out.append((i, off, w))
    return out


_PROBES: dict = {}


def probes(bname, lines, eav):
    """frames of the history (one per source device, at most 4) that are stored by their device when they arrive
    again after the history - established by a control run without any extra packet"""
    key = (bname, len(lines), eav)
    if key in _PROBES:
        return _PROBES[key]
    out, seen = [], set()
    for dtm, frame in lines:
        src = frame[11:20]
        if src in seen or frame[4:6] != " I" or len(out) >= 4:
            continue
        run = Runner(not _PLAIN[0], eav)
        try:
            for d, f in lines:
                run.feed(d, f)
            res, msg = run.feed(_dtm_plus(lines[-1][0], T_AFTER + 5), frame)
            dev = run.gwy.device_by_id.get(msg.src.id) if res == "handled" else None
            if dev is not None and any(m is msg for m in dev._msg_db):
                out.append(frame)
                seen.add(src)
        except Exception:  # noqa: BLE001
            pass
        finally:
            run.close()
    _PROBES[key] = out
    return out


_PLAIN = [False]  # True while replaying (plain package, real asyncio loop)


def pick_probe(bname, lines, eav, extra_frame, mutate):
    if mutate:
        return None  # a mutated history may legitimately change what later packets do: no control to compare with
    for f in probes(bname, lines, eav):
        if f[11:20] != extra_frame[11:20] and f[11:20] not in (extra_frame[21:30], extra_frame[31:40]):
            return f
    return None


def queries(tier):
    from symx.runner import Query

    thorough = tier == "thorough"
    qs = []
    for bname, lines, eavs in bases(tier):
        for eav in eavs:
            for mut in (False, True):
                for i, off, w in candidates(lines, thorough):
                    if mut and off > 0 and not thorough:
                        continue  # quick: a mutation inside the history only for the leading window of each frame kind
                    f = lines[i][1]
                    probe = pick_probe(bname, lines, eav, f, mut)
                    name = f"gwviews[{bname}{'+eav' if eav else ''}|{'mutated' if mut else 'extra'}|{f[4:6].strip()}|{f[41:45]}|{f[11:13]}>{f[21:23]}|{len(f[50:]) // 2}@{off}#{i}]"
                    qs.append(Query(name, lambda c, a=(bname, lines, i, off, w, eav, mut, probe): h_views(c, *a), {"h": "gwviews", "base": bname, "n": len(lines), "idx": i, "off": off, "w": w, "eav": eav, "mut": mut, "probe": probe},
                                    group="gwviews", max_secs=240 if thorough else 90, max_paths=4000, weight=0.5, mode=("bv" if f[41:45] == "3220" else "int")))
    # packets of kinds the history prefix has not shown yet (taken from later in the same log), arriving after it
    for bname, n in LATE_THOROUGH if thorough else LATE_QUICK:
        whole = load_base(bname, 10**6)
        lines = whole[:n]
        if not lines:
            continue
        kind = lambda f: (f[4:6], f[41:45], f[11:13], f[21:23], len(f[50:]))  # noqa: E731
        seen = {kind(f) for _, f in lines}
        for i, off, w in candidates(whole, thorough):
            f = whole[i][1]
            if i < n or kind(f) in seen or (not thorough and off > 0):
                continue
            probe = pick_probe(bname, lines, False, f, False)
            name = f"gwviews[{bname}|later|{f[4:6].strip()}|{f[41:45]}|{f[11:13]}>{f[21:23]}|{len(f[50:]) // 2}@{off}#{i}]"
            qs.append(Query(name, lambda c, a=(bname, lines, None, off, w, False, False, probe, f): h_views(c, *a), {"h": "gwviews", "base": bname, "n": n, "idx": None, "frame": f, "off": off, "w": w, "eav": False, "mut": False, "probe": probe},
                            group="gwviews", max_secs=240 if thorough else 90, max_paths=4000, weight=0.5, mode=("bv" if f[41:45] == "3220" else "int")))
    return qs


LATE_QUICK = [("_heat_trv_00", 45)]
LATE_THOROUGH = [("_heat_trv_00", 60), ("heat_zxdavb", 60), ("heat_ufc_00", 60), ("heat_ufc_01", 45), ("heat_otb_00", 45)]


def replay(item):
    prm = item["params"]
    tier_lines = load_base(prm["base"], prm["n"])
    frame = prm.get("frame") or tier_lines[prm["idx"]][1]
    head, pay = frame[:50], frame[50:]
    extra = head + pay[: prm["off"]] + item["cex"].get("w", "") + pay[prm["off"] + prm["w"]:]
    failed = []

    def check(cond, label, info=None):
        if not cond:
            failed.append((label, info))
        return bool(cond)

    run = Runner(False, prm.get("eav", False))
    try:
        out, view = episode(run, tier_lines, _dtm_plus(tier_lines[-1][0], T_AFTER), extra, check, at=prm["idx"] if prm.get("mut") else None, probe=prm.get("probe"))
    finally:
        run.close()
    labs = [l for l, _ in failed]
    info = next((i for l, i in failed if l == item["label"]), None)
    sig = None
    if item["label"] in labs:
        lab = item["label"].split(":", 1)[1]
        sig = f"{lab}: {(info or '').split(':')[0]} [{frame[4:6].strip()}|{frame[41:45]}]"
    return {"reproduced": item["label"] in labs, "observed": f"history {prm['base']}[:{prm['n']}] {('with line %d mutated to' % prm['idx']) if prm.get('mut') else 'then'} {extra!r}: {out}; {info}"[:600], "signature": sig}
