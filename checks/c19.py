"""C19 - the fault-log view tracks the controller's log and never shows an entry twice.

The real ``FaultLog.handle_msg/_process_msg/_insert_into_map`` and the four views run on a
*symbolic pre-state*: the believed map (which positions are known, with which time stamps), the
controller's true log and the incoming message are solver variables (time stamps are integers,
order-isomorphic to the fixed-width text stamps - the code only compares them).  One inductive
step from any state satisfying the representation invariant covers histories of any length:

  Inv(M, C):  M is strictly newest-first along positions; every stamp in M is a stamp of the
              controller's log C; the entry store holds exactly the mapped stamps.  (The believed
              positions are otherwise free: the view may be stale in either direction.)
              A message (idx, s) is admissible iff C[idx] == s (or idx >= len(C) for a null entry).

Obligations after the step: strictly newest-first (hence no entry at two positions), every
entry is one the controller reported, the reported entry sits at the reported position, the
views do not raise.  Multi-step queries: a read-through from the top reproduces C over the range
read whatever was believed before; an unsolicited announcement pushes known entries down by one."""
from __future__ import annotations

import os

from checks import common
from symx.runner import Query

PROPERTY = "C19"
LEVEL = "other"
EXPLANATION = __doc__
FUNCTIONS = [
    "ramses_rf.system.faultlog:FaultLog._insert_into_map",
    "ramses_rf.system.faultlog:FaultLog._process_msg",
    "ramses_rf.system.faultlog:FaultLog.handle_msg",
    "ramses_rf.system.faultlog:FaultLog.faultlog",
    "ramses_rf.system.faultlog:FaultLog.latest_event",
    "ramses_rf.system.faultlog:FaultLog.latest_fault",
    "ramses_rf.system.faultlog:FaultLog.active_faults",
    "ramses_rf.system.faultlog:FaultLog.get_faultlog",
    "ramses_rf.system.faultlog:FaultLog._hack_pkt_idx",
]
BOUNDS = {
    "quick": {"believed positions": "0..N-1, N<=4, each present/absent", "controller log depth": "N+2", "read-through": "n<=3"},
    "thorough": {"believed positions": "0..N-1, N<=6", "controller log depth": "N+2", "read-through": "n<=4"},
}
OUTSIDE = ["log deeper than the bound / entries dropping off the 64-entry end", "the send path under get_faultlog (C06/C07): each request is answered by the scripted controller",
           "equal time stamps for distinct entries (the code documents the stamp as the unique identifier)"]
STUBS = ["Message -> duck-typed object (verb, code, payload dict); FaultLogEntry.from_msg returns a real FaultLogEntry carrying the symbolic stamp"]
ASSUMPTIONS = ["time stamps compare as the integers they are order-isomorphic to", "the pre-state satisfies Inv(M, C) - checked to be re-established by every step (induction)"]


def setup(tier):
    common.install()


class _TCS:
    id = "01:145038"
    _gwy = None


class _Msg:
    def __init__(self, verb, idx, entry):
        from ramses_rf.const import Code

        self.verb, self.code = verb, Code._0418
        self.payload = {"log_idx": f"{idx:02X}", "log_entry": (entry,) if entry is not None else None}
        self._entry = entry


def _entry(stamp, state):
    from ramses_rf.system.faultlog import FaultLogEntry
    from ramses_tx.const import FaultDeviceClass, FaultType

    return FaultLogEntry(timestamp=stamp, fault_state=state, fault_type=FaultType.COMMS_FAULT, domain_idx="00", device_class=FaultDeviceClass.ACTUATOR, device_id="04:111111")


def _mk(ctx, N, D):
    """symbolic controller log C (depth D) and believed map M over positions < N with Inv(M, C)"""
    import z3
    import symx
    from collections import OrderedDict
    from ramses_rf.system import faultlog as FL
    from ramses_tx.const import FaultState
    from symx.instrument import SymKeyDict

    FL.FaultLogEntry.from_msg = classmethod(lambda cls, msg: msg._entry)
    C = []
    for j in range(D):
        c = symx.sym_int(ctx, f"C{j}", 1, 10_000)
        if C:
            ctx.assume((c < C[-1]).e)
        C.append(c)
    states = [symx.choice(ctx, f"state{j}", [FaultState.FAULT, FaultState.RESTORE]) if j < 2 else FaultState.FAULT for j in range(D)]
    fl = FL.FaultLog(_TCS())
    m, log, believed = OrderedDict(), SymKeyDict(), {}
    prev = None
    for i in range(N):
        if not symx.flag(ctx, f"known{i}"):
            continue
        # the entry believed at position i is *some* entry of the controller's log (its true
        # position is free: the view may be stale in either direction), newest-first along M
        v = symx.sym_int(ctx, f"M{i}", 1, 10_000)
        ctx.assume(z3.Or([v.e == c.e for c in C]))
        if prev is not None:
            ctx.assume((v < prev).e)
        prev = v
        m[i] = v
        believed[i] = v
        log[v] = _entry(v, FaultState.FAULT if i % 2 else FaultState.RESTORE)
    fl._map, fl._log = m, log
    # a read-through (get_faultlog) may or may not be in progress while a packet is handled
    fl._is_getting = symx.flag(ctx, "is_getting")
    return fl, C, states, believed


def _check_views(ctx, fl, label):
    try:
        v = fl.faultlog
        fl.latest_event
        fl.latest_fault
        fl.active_faults
        ctx.check(True, f"{label}:views-do-not-raise")
        return v
    except (KeyError, ValueError, TypeError, AttributeError, IndexError) as e:
        ctx.check(False, f"{label}:views-do-not-raise", info=f"{type(e).__name__}: {e}")
        return None


def _check_view_is_map(ctx, fl, label):
    """the public view shows exactly the believed map (positions and entries)"""
    try:
        v = fl.faultlog
    except Exception:  # noqa: BLE001  (reported by views-do-not-raise)
        return
    ctx.check(sorted(v) == sorted(fl._map), f"{label}:view-shows-the-current-map", info=f"{sorted(v)} vs {sorted(fl._map)}")
    # the view is *ordered* newest-first: it iterates from position 0 downwards (the code relies on that order too)
    ctx.check(list(v) == sorted(v), f"{label}:view-iterates-newest-first", info=f"positions in view order: {list(v)}")
    for k in fl._map:
        if k in v:
            ctx.check(v[k].timestamp == fl._map[k], f"{label}:view-shows-the-current-map")


def _check_inv(ctx, fl, C, label, strict_positions=True):
    import z3
    import symx

    items = sorted(fl._map.items(), key=lambda kv: kv[0])
    ctx.check(all(isinstance(k, int) and 0 <= k for k, _ in items), f"{label}:positions-are-indexes")
    for (a, va), (b, vb) in zip(items, items[1:]):
        ctx.check(va > vb, f"{label}:newest-first")
    for k, v in items:
        ctx.check(symx.s_or(*[v == c for c in C]), f"{label}:only-reported-entries")
        if strict_positions:
            ok = symx.s_or(*[v == c for c in C[k:]]) if k < len(C) else False
            ctx.check(ok, f"{label}:induction:never-believed-above-true-position")
    # the store behind the views holds exactly the mapped stamps
    for v in fl._map.values():
        ctx.check(fl._log.__sx_contains__(v) if hasattr(fl._log, "__sx_contains__") else (v in fl._log), f"{label}:entry-available")


def h_step(ctx, N):
    """one inductive step from an arbitrary state with Inv, for an arbitrary admissible message"""
    import symx
    from ramses_rf.const import I_, RP

    D = N + 2
    fl, C, states, believed = _mk(ctx, N, D)
    idx = symx.choice(ctx, "idx", list(range(D + 1)))
    verb = symx.choice(ctx, "verb", [I_, RP])
    if idx < D:
        msg = _Msg(verb, idx, _entry(C[idx], states[idx]))
    else:
        msg = _Msg(verb, idx, None)  # null entry: nothing at or below idx
    try:
        fl.faultlog  # the view has been read before (whatever it caches must not survive the change)
    except Exception:  # noqa: BLE001
        pass
    fl.handle_msg(msg)
    _check_inv(ctx, fl, C, "step", strict_positions=False)
    _check_view_is_map(ctx, fl, "step")
    if idx < D:
        got = fl._map.get(idx)
        ctx.check(got is not None and (got == C[idx]), "step:reported-entry-at-reported-position")
    elif verb == I_:
        ctx.check(all(k < idx for k in fl._map), "step:null-entry-clears-tail")
    _check_views(ctx, fl, "step")
    return (len(believed), idx, len(fl._map))


def h_readthrough(ctx, N, n):
    """RP idx 0..n-1 of an unchanged log, from an arbitrary prior state: view == log over the range"""
    import symx
    from ramses_rf.const import RP

    D = N + 2
    fl, C, states, believed = _mk(ctx, N, D)
    for i in range(n):
        fl.handle_msg(_Msg(RP, i, _entry(C[i], states[i])))
    for i in range(n):
        got = fl._map.get(i)
        ctx.check(got is not None and (got == C[i]), "readthrough:view-equals-log")
    _check_inv(ctx, fl, C, "readthrough", strict_positions=False)
    v = _check_views(ctx, fl, "readthrough")
    if v is not None:
        for i in range(n):
            ctx.check(i in v and (v[i].timestamp == C[i]), "readthrough:faultlog-view")
    return (len(believed), n, len(fl._map))


def h_announce(ctx, N):
    """a view that is current on positions 0..k-1; an unsolicited I idx=0 of a newer entry"""
    import symx
    from collections import OrderedDict
    from ramses_rf.const import I_
    from ramses_rf.system import faultlog as FL
    from ramses_tx.const import FaultState
    from symx.instrument import SymKeyDict

    FL.FaultLogEntry.from_msg = classmethod(lambda cls, msg: msg._entry)
    k = symx.choice(ctx, "k", list(range(0, N + 1)))
    old = []
    for j in range(k):
        c = symx.sym_int(ctx, f"C{j}", 1, 10_000)
        if old:
            ctx.assume((c < old[-1]).e)
        old.append(c)
    new = symx.sym_int(ctx, "new", 1, 20_000)
    if old:
        ctx.assume((new > old[0]).e)
    fl = FL.FaultLog(_TCS())
    fl._map = OrderedDict((i, old[i]) for i in range(k))
    fl._log = SymKeyDict((old[i], _entry(old[i], FaultState.FAULT)) for i in range(k))
    fl.handle_msg(_Msg(I_, 0, _entry(new, FaultState.FAULT)))
    got0 = fl._map.get(0)
    ctx.check(got0 is not None and (got0 == new), "announce:new-entry-on-top")
    for i in range(k):
        if i + 1 <= FL.FaultLog._MAX_LOG_IDX:
            g = fl._map.get(i + 1)
            ctx.check(g is not None and (g == old[i]), "announce:known-entries-pushed-down-by-one")
    ctx.check(len(fl._map) == k + 1, "announce:no-extra-entries")
    _check_views(ctx, fl, "announce")
    return (k, len(fl._map))


class _XEnv:
    """selectors for the read-through scenario: symbolic (check) / from a counterexample (replay)"""

    def __init__(self, ctx=None, cex=None):
        self.ctx, self.cex, self.symbolic, self.failed = ctx, cex, ctx is not None, []

    def choice(self, name, options):
        if self.symbolic:
            import symx

            return symx.choice(self.ctx, name, options)
        v = self.cex.get(name)
        return next((o for o in options if o == v or str(o) == str(v)), options[0])

    def flag(self, name):
        if self.symbolic:
            import symx

            return symx.flag(self.ctx, name)
        return bool(self.cex.get(name, False))

    def check(self, cond, label, info=None):
        if self.symbolic:
            return self.ctx.check(cond, label, info)
        if not cond:
            self.failed.append((label, info))
        return bool(cond)


def run_getlog(env):
    """the real get_faultlog request loop (incl. _hack_pkt_idx for null replies) against a scripted controller:
    a read-through, then new entries whose announcements are delivered or lost, then another read-through"""
    import asyncio
    from datetime import datetime as _dt, timedelta as _td

    from ramses_rf.system import faultlog as FL
    from ramses_tx.command import Command
    from ramses_tx.message import Message
    from ramses_tx.packet import Packet
    from symx.vloop import VLoop, running

    loop = VLoop(0)
    ctl, hgi = "01:145038", "18:006402"
    t0 = _dt(2023, 5, 1, 10, 0, 0)
    NULL = "000000B0000000000000000000007FFFFF7000000000"

    def entry_payload(k, idx):
        from ramses_tx.const import FaultDeviceClass, FaultState, FaultType

        c = Command._put_system_log_entry(ctl, FaultState.FAULT if k % 2 else FaultState.RESTORE, FaultType.COMMS_FAULT, FaultDeviceClass.ACTUATOR, device_id="04:111111", domain_idx="00", _log_idx=idx, timestamp=t0 + _td(minutes=7 * k))
        return c.payload

    log = []  # newest first: list of entry numbers k

    def rp(idx):
        pl = entry_payload(log[idx], idx) if idx < len(log) else NULL
        return Packet.from_port(t0, f"045 RP --- {ctl} {hgi} --:------ 0418 022 {pl}")

    class Gwy:
        _loop = loop

        async def async_send_cmd(self, cmd, **kw):
            await asyncio.sleep(0.01)
            sent["n"] += 1
            if sent["fail_at"] is not None and sent["n"] - 1 == sent["fail_at"]:
                from ramses_tx import exceptions as exc

                raise exc.ProtocolSendFailed("stub: no reply")
            return rp(int(cmd.payload[4:6], 16))

    from ramses_rf.system import heat as H

    sent = {"n": 0, "fail_at": None}
    tcs = type("T", (), {"id": ctl, "_gwy": Gwy()})()
    fl = FL.FaultLog(tcs)
    tcs._faultlog = fl
    get_log = lambda **kw: H.Logbook.get_faultlog(tcs, **kw)  # noqa: E731  the system's own entry point
    n1 = env.choice("n1", [0, 1, 2, 4, 11])
    for k in range(n1):
        log.insert(0, k)
    lim1 = env.choice("limit1", [1, 3, 8, 16])
    lim2 = env.choice("limit2", [3, 8, 16])
    # a request of the first walk that gets no reply (the walk fails); the controller's log being cleared between the
    # walks; then new entries (for the long case their announcements are all lost)
    sent["fail_at"] = env.choice("first_walk_fails_at", [None, 0, 1])
    cleared = env.flag("log_cleared_between_walks") if n1 >= 2 else False
    m = env.choice("new_entries", [0, 1, 2, 11] if cleared else [0, 1, 2])
    problems = []

    def stamp(k):
        from ramses_tx.helpers import hex_to_dts, hex_from_dts

        return hex_to_dts(hex_from_dts(t0 + _td(minutes=7 * k)))

    def compare(tag, limit):
        try:
            view = fl.faultlog
            fl.latest_event, fl.latest_fault, fl.active_faults
        except Exception as e:  # noqa: BLE001
            problems.append(f"{tag}: a view raised {type(e).__name__}: {e}")
            return
        upto = min(limit, len(log))
        want = {i: stamp(log[i]) for i in range(upto)}
        got = {i: view[i].timestamp for i in view if i < upto}
        if got != want:
            problems.append(f"{tag}: view over the range read {got} != controller log {want}")
        keys = sorted(view)
        ts = [view[i].timestamp for i in keys]
        if ts != sorted(ts, reverse=True) or len(set(ts)) != len(ts):
            problems.append(f"{tag}: view not newest-first / has duplicates: {dict(zip(keys, ts))}")
        if any(t not in {stamp(k) for k in ever} for t in ts):
            problems.append(f"{tag}: view shows an entry the controller never reported")
        if limit > len(log) and any(i >= len(log) for i in view):
            problems.append(f"{tag}: the walk reached the end of the log ({len(log)} entries) but the view still shows positions {[i for i in view if i >= len(log)]}")
        if list(view) != sorted(view):
            problems.append(f"{tag}: view not in position order: {list(view)}")

    ever = set(log)

    async def main():
        r1 = await get_log(limit=lim1)
        if sent["fail_at"] is None or sent["fail_at"] >= sent["n"]:
            compare("first read-through", lim1)
        elif r1 is not None:
            problems.append("first read-through: a request failed but a result was returned")
        sent["fail_at"] = None
        if cleared:
            log.clear()
        for j in range(m):
            k = n1 + j
            log.insert(0, k)
            ever.add(k)
            if m <= 2 and not env.flag(f"announcement_lost{j}"):
                pkt = Packet.from_port(t0, f"045  I --- {ctl} --:------ {ctl} 0418 022 {entry_payload(k, 0)}")
                fl.handle_msg(Message(pkt))
        n_before = sent["n"]
        await get_log(limit=lim2)
        if sent["n"] == n_before:
            problems.append("second read-through: no request was sent")
        compare("second read-through", lim2)

    with running(loop):
        task = loop.create_task(main())
    loop.run(until=task)
    if task.exception() is not None:
        problems.append(f"get_faultlog raised {type(task.exception()).__name__}: {task.exception()}")
    return problems, (n1, lim1, m, lim2, bool(cleared))


def h_getlog(ctx):
    env = _XEnv(ctx=ctx)
    problems, shape = run_getlog(env)
    env.check(not problems, "getlog:read-through-reproduces-the-controller-log", info="; ".join(problems)[:300])
    return shape


def queries(tier, seed):
    thorough = tier == "thorough"
    qs = []
    qs.append(Query("getlog", h_getlog, {"h": "getlog"}, group="getlog", max_secs=600, max_paths=50_000, weight=20, split_depth=4))
    Ns = (1, 2, 3, 4) if not thorough else (1, 2, 3, 4, 5, 6)
    for N in Ns:
        qs.append(Query(f"step[N={N}]", lambda c, N=N: h_step(c, N), {"h": "step", "N": N}, group="step", max_secs=600 if thorough else 240, max_paths=400_000, weight=N, split_depth=(6 if N >= 3 else None)))
    for N in ((2, 3) if not thorough else (2, 3, 4)):
        for n in ((1, 2, 3) if not thorough else (1, 2, 3, 4)):
            qs.append(Query(f"readthrough[N={N},n={n}]", lambda c, N=N, n=n: h_readthrough(c, N, n), {"h": "readthrough", "N": N, "n": n}, group="readthrough", max_secs=600 if thorough else 240, max_paths=400_000, weight=N + n, split_depth=(6 if N >= 3 else None)))
    for N in ((3,) if not thorough else (3, 6)):
        qs.append(Query(f"announce[N={N}]", lambda c, N=N: h_announce(c, N), {"h": "announce", "N": N}, group="announce", max_secs=240))

    def canary(c):
        fl, C, states, believed = _mk(c, 2, 4)
        from ramses_rf.const import RP

        fl.handle_msg(_Msg(RP, 1, _entry(C[1], states[1])))
        got = fl._map.get(0)
        c.check(got is not None, "canary")  # false when position 0 was not known

    qs.append(Query("canary:step", canary, canary=True))
    only = os.environ.get("C19_ONLY")
    if only:
        qs = [q for q in qs if only in q.name]
    return qs


# ------------------------------------------------------------------------------------------


def replay(item):
    """Concrete re-run: integer stamps become the fixed-width text stamps the library uses."""
    common.plain_imports()
    from collections import OrderedDict
    from ramses_rf.const import I_, RP
    from ramses_rf.system import faultlog as FL
    from ramses_tx.const import FaultState

    cex, prm = item["cex"], item["params"]
    if prm["h"] == "getlog":
        problems, shape = run_getlog(_XEnv(cex=cex))
        return {"reproduced": bool(problems), "observed": f"log of {shape[0]} entries, get_faultlog(limit={shape[1]}), {shape[2]} new entries (announcements lost: {[k for k in cex if k.startswith('announcement_lost') and cex[k]]}), get_faultlog(limit={shape[3]}): " + "; ".join(problems)[:600],
                "signature": "faultlog getlog: read-through-reproduces-the-controller-log"}
    FL.FaultLogEntry.from_msg = classmethod(lambda cls, msg: msg._entry)

    def ts(n):
        return f"{n:08d}"

    def st(name):
        v = cex.get(name, "fault")
        return FaultState.RESTORE if "restore" in str(v).lower() else FaultState.FAULT

    h = prm["h"]
    fl = FL.FaultLog(_TCS())
    problems = []

    def inv(C):
        items = sorted(fl._map.items())
        for (a, va), (b, vb) in zip(items, items[1:]):
            if not va > vb:
                problems.append(f"not newest-first at {a},{b}")
        for k, v in items:
            if v not in C:
                problems.append(f"entry {v} at {k} never reported")
        for v in fl._map.values():
            if v not in fl._log:
                problems.append(f"entry {v} missing from the store")

    def views():
        try:
            fl.faultlog, fl.latest_event, fl.latest_fault, fl.active_faults
        except Exception as e:  # noqa: BLE001
            problems.append(f"view raised {type(e).__name__}: {e}")

    if h in ("step", "readthrough"):
        N = prm["N"]
        D = N + 2
        C = [ts(cex[f"C{j}"]) for j in range(D)]
        states = [st(f"state{j}") if j < 2 else FaultState.FAULT for j in range(D)]
        for i in range(N):
            if cex.get(f"known{i}"):
                v = ts(cex[f"M{i}"])
                fl._map[i] = v
                fl._log[v] = _entry(v, FaultState.FAULT if i % 2 else FaultState.RESTORE)
        fl._is_getting = bool(cex.get("is_getting", False))
        before = dict(fl._map)
        if h == "step":
            idx = cex["idx"]
            verb = I_ if str(cex.get("verb")).strip() == "I" else RP
            msg = _Msg(verb, idx, _entry(C[idx], states[idx])) if idx < D else _Msg(verb, idx, None)
            try:
                fl.faultlog
            except Exception:  # noqa: BLE001
                pass
            fl.handle_msg(msg)
            try:
                v = fl.faultlog
                if sorted(v) != sorted(fl._map) or any(v[k].timestamp != fl._map[k] for k in fl._map if k in v):
                    problems.append(f"view {sorted(v)} is not the current map {sorted(fl._map)}")
                if list(v) != sorted(v):
                    problems.append(f"view not in position order (newest first): {list(v)}")
            except Exception:  # noqa: BLE001
                pass
            inv(C)
            if idx < D and fl._map.get(idx) != C[idx]:
                problems.append(f"reported entry not at position {idx}")
            if idx >= D and verb == I_ and any(k >= idx for k in fl._map):
                problems.append("null entry did not clear the tail")
            views()
            desc = f"map {before} + {verb}|idx={idx} (log {C}) -> {dict(fl._map)}"
        else:
            n = prm["n"]
            for i in range(n):
                fl.handle_msg(_Msg(RP, i, _entry(C[i], states[i])))
            for i in range(n):
                if fl._map.get(i) != C[i]:
                    problems.append(f"after read-through position {i} is {fl._map.get(i)} not {C[i]}")
            inv(C)
            views()
            desc = f"map {before} + read-through of {n} (log {C}) -> {dict(fl._map)}"
    else:
        k = cex["k"]
        old = [ts(cex[f"C{j}"]) for j in range(k)]
        new = ts(cex["new"])
        for i in range(k):
            fl._map[i] = old[i]
            fl._log[old[i]] = _entry(old[i], FaultState.FAULT)
        fl.handle_msg(_Msg(I_, 0, _entry(new, FaultState.FAULT)))
        want = OrderedDict([(0, new)] + [(i + 1, old[i]) for i in range(k)])
        if dict(fl._map) != dict(want):
            problems.append(f"after announcement map is {dict(fl._map)} not {dict(want)}")
        views()
        desc = f"current view of {k} + new entry"
    label = item["label"]
    if label.endswith("induction:never-believed-above-true-position"):
        return {"reproduced": False, "observed": "induction clause only (not a property clause): " + desc, "signature": None}
    return {"reproduced": bool(problems), "observed": (desc + " :: " + "; ".join(problems))[:600], "signature": f"faultlog {h}: {label.split(':', 1)[1]}"}
