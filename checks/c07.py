"""C07 - every send completes in bounded time with the right packet or a protocol error.

The real PortProtocol / ProtocolContext / state classes run on a virtual-time event loop.  For
each transmission the echo's and the reply's fate is a solver Boolean (lost or not) and its
arrival time a solver *real*, so one explored path is a whole zone of the schedule space (echo
before / after / exactly at the retry timer, reply before echo, ...); caller timeouts, priorities,
a stray packet, a write failure and a disconnect are solver variables too.  The C07 oracle is
asserted on every path (see checks/fsm.py: oracle_c07)."""
from __future__ import annotations

from checks import common, fsm

PROPERTY = "C07"
LEVEL = "other"
EXPLANATION = __doc__
FUNCTIONS, STUBS, ASSUMPTIONS, OUTSIDE, BOUNDS = fsm.FUNCTIONS, fsm.STUBS, fsm.ASSUMPTIONS, fsm.OUTSIDE, fsm.BOUNDS
MIN_CONCLUSIVE_FRACTION = 0.8


def setup(tier):
    common.install(td_modules=("ramses_tx.parsers", "ramses_tx.protocol_fsm", "ramses_tx.protocol"))


def queries(tier, seed):
    return fsm.build_queries(PROPERTY, tier, seed)


def replay(item):
    return fsm.replay_item(PROPERTY, item)
