"""C04 - wire value codecs are exact inverses on their grid.

The real helper functions (ramses_tx.helpers, ramses_tx.address, the setpoint packing of
ramses_rf.system.schedule) are executed on symbolic wire words / grid indices.  Kernels that
involve binary floating point run in *bv mode*: integers are bit-vectors, floats are z3
IEEE-754 binary64 terms with round-to-nearest-even, int() is round-toward-zero - i.e. the
bit-exact semantics of CPython - so a 1-LSB truncation is a satisfying assignment, not a
sampling accident.  The whole 16/8/24-bit space of each word is covered by the solver."""
from __future__ import annotations

import os

from checks import common
from symx.runner import Query

PROPERTY = "C04"
# out-of-range temperatures: "refused" on every path is the correct outcome and reaches no assertion
OBLIGATION_FREE_GROUPS = ("k_temp_range",)
LEVEL = "other"
EXPLANATION = __doc__
FUNCTIONS = [
    "ramses_tx.helpers:hex_to_temp", "ramses_tx.helpers:hex_from_temp",
    "ramses_tx.helpers:hex_to_percent", "ramses_tx.helpers:hex_from_percent",
    "ramses_tx.helpers:hex_to_double", "ramses_tx.helpers:hex_from_double",
    "ramses_tx.helpers:hex_to_bool", "ramses_tx.helpers:hex_from_bool",
    "ramses_tx.helpers:hex_to_flag8", "ramses_tx.helpers:hex_from_flag8",
    "ramses_tx.helpers:hex_to_str", "ramses_tx.helpers:hex_from_str",
    "ramses_tx.helpers:hex_to_dtm", "ramses_tx.helpers:hex_from_dtm",
    "ramses_tx.helpers:hex_to_dts", "ramses_tx.helpers:hex_from_dts",
    "ramses_tx.helpers:hex_to_date",
    "ramses_tx.address:Address.convert_to_hex", "ramses_tx.address:Address.convert_from_hex",
    "ramses_tx.address:dev_id_to_hex_id", "ramses_tx.address:hex_id_to_dev_id",
    "ramses_rf.system.schedule:_struct_pack", "ramses_rf.system.schedule:_struct_unpack",
]
BOUNDS = {
    "temp": "all 65 536 words; all k/100 for k in [-27315, 32767]; out-of-range k in +-[32768, 99999]",
    "percent": "all 256 bytes x 2 resolutions; all k/200 (k<=200) and k/100 (k<=100); out-of-range k up to 400 and < 0",
    "double": "all 65 536 words x factors {1,10,100,1000}; all k/factor k in [0,65535]",
    "flag8": "all 256 bytes, all 2^8 flag lists, both bit orders",
    "str": "printable ASCII strings of length 1..8 without leading/trailing blank",
    "dtm": "all date-times years 1..9999 (Gregorian model) x dst x incl_seconds",
    "dts": "all seconds of years 2000..2099 given as datetime; all texts YY-MM-DDTHH:MM:SS with YY 00..99 (the %y pivot of strptime modelled: 69..99 -> 19xx)",
    "ids": "all 2^24 6-hex ids; all tt:nnnnnn with tt<=63, n<2^18; out-of-range tt 64..99 / n >= 2^18",
    "schedule setpoint": "all k/100 for k in [500, 3500]",
}
OUTSIDE = ["friendly id forms (CTL:123456)", "century wrap of 2-digit years", "non-ASCII text", "date-time h->v->h (decoder masks day-of-week/DST bits by design)"]
STUBS = ["datetime -> symx.stubs.SymDateTime (Gregorian validity model, isoformat/strftime for %Y %y %m %d %H %M %S; strptime full-width reading of the same directives)",
         "struct.pack/unpack '<xxBxxxBBH' / '<xxBxxxBBHxx' -> byte-layout model (schedule setpoint)"]
ASSUMPTIONS = ["z3 FP theory implements IEEE-754 binary64 as CPython does (cross-checked on random operands by selfcheck)",
               "64/32-bit bit-vectors cannot wrap for the bounded inputs used"]
MIN_CONCLUSIVE_FRACTION = 0.7


def setup(tier):
    common.install(dt_modules=("ramses_tx.helpers",), struct_modules=("ramses_rf.system.schedule",))


def _mods():
    from ramses_tx import address as A, helpers as H

    return H, A


# ------------------------------------------------------------------------------------------
# kernels: fn(inp, chk) - run symbolically (inp symbolic, chk = ctx.check) and concretely in
# replay (inp = counterexample, chk records).  They only call the real functions.


def k_temp_hvh(inp, chk):
    H, _ = _mods()
    h = inp["h"]
    try:
        t = H.hex_to_temp(h)
    except ValueError:
        return "rejected"
    if t is None or t is False:
        return "sentinel"
    chk(H.hex_from_temp(t) == h, "temp:h->v->h")
    return "number"


def k_temp_vhv(inp, chk):
    H, _ = _mods()
    v = inp["k"] / 100
    h = H.hex_from_temp(v)
    try:
        back = H.hex_to_temp(h)
    except ValueError:
        chk(False, "temp:v->h->v")
        return "decoder-rejects"
    if back is None or back is False:
        chk(False, "temp:v->h->v")
        return "sentinel"
    chk(back == v, "temp:v->h->v")
    return "ok"


def k_temp_range(inp, chk):
    """outside the representable range: raise, or a word that decodes to the same value, or a
    word the decoder rejects - never a *different* valid value"""
    H, _ = _mods()
    v = inp["k"] / 100
    try:
        h = H.hex_from_temp(v)
    except (ValueError, TypeError):
        return "refused"
    try:
        back = H.hex_to_temp(h)
    except ValueError:
        return "undecodable"
    if back is None or back is False:
        chk(False, "temp:out-of-range->sentinel")
        return "sentinel"
    chk(back == v, "temp:out-of-range-wraps")
    return "encoded"


def k_percent_hvh(inp, chk):
    H, _ = _mods()
    h, hi = inp["h"], inp["high_res"]
    try:
        p = H.hex_to_percent(h, high_res=hi)
    except ValueError:
        return "rejected"
    if p is None:
        return "sentinel"
    chk(H.hex_from_percent(p, high_res=hi) == h, "percent:h->v->h")
    return "number"


def k_percent_vhv(inp, chk):
    H, _ = _mods()
    hi = inp["high_res"]
    v = inp["k"] / (200 if hi else 100)
    try:
        h = H.hex_from_percent(v, high_res=hi)
    except ValueError:
        if inp.get("in_range", True):
            chk(False, "percent:v->h->v")
        return "refused"
    try:
        back = H.hex_to_percent(h, high_res=hi)
    except ValueError:
        if inp.get("in_range", True):
            chk(False, "percent:v->h->v")
        return "undecodable"
    chk(back == v, "percent:v->h->v" if inp.get("in_range", True) else "percent:out-of-range-wraps")
    return "ok"


def k_double_hvh(inp, chk):
    H, _ = _mods()
    h, f = inp["h"], inp["factor"]
    d = H.hex_to_double(h, factor=f)
    if d is None:
        return "sentinel"
    chk(H.hex_from_double(d, factor=f) == h, "double:h->v->h")
    return "number"


def k_double_vhv(inp, chk):
    H, _ = _mods()
    f = inp["factor"]
    v = inp["k"] / f
    inr = inp.get("in_range", True)
    try:
        h = H.hex_from_double(v, factor=f)
    except ValueError:
        if inr:
            chk(False, "double:v->h->v")
        return "refused"
    try:
        back = H.hex_to_double(h, factor=f)
    except ValueError:
        if inr:
            chk(False, "double:v->h->v")
        return "undecodable"
    if back is None:
        chk(False, "double:v->h->v" if inr else "double:out-of-range-wraps")
        return "sentinel"
    chk(back == v, "double:v->h->v" if inr else "double:out-of-range-wraps")
    return "ok"


def k_bool_hvh(inp, chk):
    H, _ = _mods()
    h = inp["h"]
    try:
        b = H.hex_to_bool(h)
    except (KeyError, ValueError):
        return "rejected"
    chk(H.hex_from_bool(b) == h, "bool:h->v->h")
    return "ok"


def k_bool_vhv(inp, chk):
    H, _ = _mods()
    for v in (None, False, True):
        chk(H.hex_to_bool(H.hex_from_bool(v)) is v, "bool:v->h->v")
    for v in (None, False):
        chk(H.hex_to_temp(H.hex_from_temp(v)) is v, "temp:sentinel")
    chk(H.hex_to_double(H.hex_from_double(None)) is None, "double:sentinel")
    chk(H.hex_to_percent(H.hex_from_percent(None)) is None, "percent:sentinel")
    chk(H.hex_to_dtm(H.hex_from_dtm(None)) is None, "dtm:sentinel")
    chk(H.hex_to_dtm(H.hex_from_dtm(None, incl_seconds=True)) is None, "dtm:sentinel")
    chk(H.hex_to_dts(H.hex_from_dts(None)) is None, "dts:sentinel")
    return "ok"


def _all_eq(xs, ys):
    from symx import s_and

    if len(xs) != len(ys):
        return False
    return s_and(*[x == y for x, y in zip(xs, ys)])


def k_flag8_hvh(inp, chk):
    H, _ = _mods()
    h, lsb = inp["h"], inp["lsb"]
    flags = H.hex_to_flag8(h, lsb=lsb)
    chk(H.hex_from_flag8(flags, lsb=lsb) == h, "flag8:h->v->h")
    # the decoded list belongs to the caller: editing it must not change what the next decode returns
    flags[0] = 1 - flags[0]
    again = H.hex_to_flag8(h, lsb=lsb)
    chk(again is not flags, "flag8:decode-is-fresh")
    chk(H.hex_from_flag8(again, lsb=lsb) == h, "flag8:decode-is-fresh")
    return "ok"


def k_flag8_vhv(inp, chk):
    H, _ = _mods()
    flags, lsb = list(inp["flags"]), inp["lsb"]
    h = H.hex_from_flag8(flags, lsb=lsb)
    chk(_all_eq(H.hex_to_flag8(h, lsb=lsb), flags), "flag8:v->h->v")
    return "ok"


def k_str_vhv(inp, chk):
    H, _ = _mods()
    s = inp["s"]
    chk(H.hex_to_str(H.hex_from_str(s)) == s, "str:v->h->v")
    return "ok"


def _mk_dt(inp):
    f = inp["dt"]
    if isinstance(f, (list, tuple)):  # replay
        from datetime import datetime

        return datetime(*f)
    return f


def _two(x, w=2):
    return format(x, f"0{w}d")


def k_dtm_vhv(inp, chk):
    H, _ = _mods()
    d = _mk_dt(inp)
    hx = H.hex_from_dtm(d, is_dst=inp["is_dst"], incl_seconds=inp["incl_seconds"])
    chk(len(hx) == (14 if inp["incl_seconds"] else 12), "dtm:hex-length")
    try:
        back = H.hex_to_dtm(hx)
    except ValueError:
        chk(False, "dtm:v->h->v")
        return "decoder-rejects"
    sec = _two(d.second) if inp["incl_seconds"] else "00"
    want = _two(d.year, 4) + "-" + _two(d.month) + "-" + _two(d.day) + "T" + _two(d.hour) + ":" + _two(d.minute) + ":" + sec
    chk(back == want, "dtm:v->h->v")
    return "ok"


def k_dts_vhv(inp, chk):
    H, _ = _mods()
    d = _mk_dt(inp)
    hx = H.hex_from_dts(d)
    chk(len(hx) == 12, "dts:hex-length")
    try:
        back = H.hex_to_dts(hx)
    except ValueError:
        chk(False, "dts:v->h->v")
        return "decoder-rejects"
    if back is None:
        chk(False, "dts:v->h->v")
        return "sentinel"
    want = _two(d.year % 100) + "-" + _two(d.month) + "-" + _two(d.day) + "T" + _two(d.hour) + ":" + _two(d.minute) + ":" + _two(d.second)
    chk(back == want, "dts:v->h->v")
    return "ok"


def k_dts_text(inp, chk):
    """the decoder's own value type (text YY-MM-DDTHH:MM:SS) -> hex -> text, every year field 00..99"""
    H, _ = _mods()
    t = inp["t"]
    hx = H.hex_from_dts(t)
    chk(len(hx) == 12, "dts:hex-length")
    try:
        back = H.hex_to_dts(hx)
    except ValueError:
        chk(False, "dts:text->h->text")
        return "decoder-rejects"
    if back is None:
        chk(False, "dts:text->h->text")
        return "sentinel"
    chk(back == t, "dts:text->h->text")
    return "ok"


def k_date(inp, chk):
    """hex_to_date against an independent reading of the layout DDMMYYYY (day & 0x1F)"""
    H, _ = _mods()
    y, m, d = inp["y"], inp["m"], inp["d"]
    hx = format(d, "02X") + format(m, "02X") + format(y, "04X")
    try:
        got = H.hex_to_date(hx)
    except ValueError:
        chk(not inp["valid"], "date:valid-rejected")
        return "rejected"
    if got is None:
        return "sentinel"
    day = d & 0x1F
    chk(got == format(y, "d") + "-" + _two(m) + "-" + _two(day), "date:decode")
    return "ok"


def k_id_hvh(inp, chk):
    H, A = _mods()
    h = inp["h"]
    for name, dec, enc in (("addr", A.Address.convert_from_hex, A.Address.convert_to_hex), ("fn", A.hex_id_to_dev_id, A.dev_id_to_hex_id)):
        i = dec(h)
        chk(len(i) == 9, f"id:{name}:len")
        try:
            back = enc(i)
        except Exception as e:  # noqa: BLE001  the encoder refuses what the decoder produced: not a bijection
            chk(False, f"id:{name}:h->v->h", f"encoder raised {type(e).__name__}")
            continue
        chk(back == h, f"id:{name}:h->v->h")
    return "ok"


def k_id_vhv(inp, chk):
    H, A = _mods()
    i = inp["tt"] + ":" + inp["n"]
    inr = inp.get("in_range", True)
    for name, dec, enc in (("addr", A.Address.convert_from_hex, A.Address.convert_to_hex), ("fn", A.hex_id_to_dev_id, A.dev_id_to_hex_id)):
        try:
            h = enc(i)
        except (ValueError, TypeError):
            if inr:
                chk(False, f"id:{name}:v->h->v")
            continue
        if inr:
            chk(len(h) == 6, f"id:{name}:hexlen")
        elif len(h) != 6:
            continue
        chk(dec(h) == i, f"id:{name}:v->h->v" if inr else f"id:{name}:out-of-range-wraps")
    return "ok"


def k_sched_setpoint(inp, chk):
    """the int(x*100) idiom when packing schedule setpoints (struct model)"""
    from ramses_rf.system import schedule as SCH

    v = inp["k"] / 100
    blob = SCH._struct_pack({SCH.SZ_ZONE_IDX: "00"}, {SCH.SZ_DAY_OF_WEEK: 0}, {SCH.SZ_TIME_OF_DAY: "06:30", SCH.SZ_HEAT_SETPOINT: v})
    idx, dow, tod, val = SCH._struct_unpack(blob)
    chk(idx == 0, "sched:idx")
    chk(tod == 390, "sched:tod")
    chk(val / 100 == v, "sched:setpoint")  # decode rule of fragz_to_full_sched.setpoint()
    return "ok"


KERNELS = {f.__name__: f for f in (k_temp_hvh, k_temp_vhv, k_temp_range, k_percent_hvh, k_percent_vhv, k_double_hvh, k_double_vhv,
                                   k_bool_hvh, k_bool_vhv, k_flag8_hvh, k_flag8_vhv, k_str_vhv, k_dtm_vhv, k_dts_vhv, k_dts_text, k_date,
                                   k_id_hvh, k_id_vhv, k_sched_setpoint)}


# ------------------------------------------------------------------------------------------


def _q(name, kernel, build, mode="int", secs=300, group=None, weight=1.0, canary=False, params=None, width=32):
    def fn(ctx):
        inp = build(ctx)
        if canary:
            def chk(cond, label, info=None):
                return ctx.check(False if canary == "all" else cond, label)
        else:
            chk = ctx.check
        return kernel(inp, chk)

    pre = (lambda: _set_bv(width)) if mode == "bv" else None
    return Query(name=name, fn=fn, params=dict(params or {}, kernel=kernel.__name__), mode=mode, max_secs=secs, group=group or kernel.__name__, weight=weight, pre=pre, canary=bool(canary), max_paths=5000,
                 solver_timeout_ms=int(secs * 1000 * 0.6) if mode == "bv" else None)


def _set_bv(w):
    from symx import core

    core.Cfg.bv_width = w


def queries(tier, seed):
    import symx
    from symx.stubs import SymDateTime

    qs = []
    HEXD = "0123456789ABCDEF"
    thorough = tier == "thorough"
    secs = 900 if thorough else 240

    # --- temperatures (FP, bv mode); 16-way split on the first nibble
    for d0 in HEXD:
        qs.append(_q(f"temp_hvh[{d0}xxx]", k_temp_hvh, lambda ctx, d0=d0: {"h": d0 + symx.sym_hex(ctx, "h3", 3)}, "bv", secs, weight=5, params={"first_nibble": d0}))
    # grid: k in [-27315, 32767] without the three sentinel words
    bounds = list(range(-27315, 32768, 4096)) + [32768]
    for lo, hi in zip(bounds, bounds[1:]):
        def b(ctx, lo=lo, hi=hi):
            k = symx.sym_int(ctx, "k", lo, hi - 1)
            ctx.assume(symx.s_and(k != 32767, k != 32511, k != 12799).e if not isinstance(symx.s_and(k != 32767, k != 32511, k != 12799), bool) else True)
            return {"k": k}
        qs.append(_q(f"temp_vhv[{lo},{hi})", k_temp_vhv, b, "bv", secs, weight=5, params={"k_range": [lo, hi]}))
    for lo, hi in ((32768, 65535), (65536, 99999), (-99999, -65537), (-65536, -32769)):
        qs.append(_q(f"temp_range[{lo},{hi}]", k_temp_range, lambda ctx, lo=lo, hi=hi: {"k": symx.sym_int(ctx, "k", lo, hi)}, "bv", secs, weight=4, params={"k_range": [lo, hi]}))

    # --- percent
    for hi_res in (True, False):
        qs.append(_q(f"percent_hvh[high_res={hi_res}]", k_percent_hvh, lambda ctx, r=hi_res: {"h": symx.sym_hex(ctx, "h", 2), "high_res": r}, "bv", secs, weight=3))
        top = 200 if hi_res else 100
        qs.append(_q(f"percent_vhv[high_res={hi_res}]", k_percent_vhv, lambda ctx, r=hi_res, top=top: {"k": symx.sym_int(ctx, "k", 0, top), "high_res": r}, "bv", secs, weight=3))
        qs.append(_q(f"percent_range[high_res={hi_res}]", k_percent_vhv, lambda ctx, r=hi_res, top=top: {"k": symx.sym_int(ctx, "k", top + 1, 400), "high_res": r, "in_range": False}, "bv", secs, weight=2))
        qs.append(_q(f"percent_neg[high_res={hi_res}]", k_percent_vhv, lambda ctx, r=hi_res: {"k": symx.sym_int(ctx, "k", -400, -1), "high_res": r, "in_range": False}, "bv", secs, weight=2))

    # --- doubles
    for f in (1, 10, 100, 1000):
        nsplit = {1: 1, 10: 4, 100: 8, 1000: 16}[f]
        step = 65536 // nsplit
        for part in range(nsplit):
            lo, hi = part * step, (part + 1) * step - 1
            d0s = HEXD[part * (16 // nsplit):(part + 1) * (16 // nsplit)]
            def bh(ctx, d0s=d0s, f=f):
                h = symx.sym_hex(ctx, "h", 4)
                from symx.strings import _cp
                import z3
                ctx.assume(z3.Or([h.chars[0] == ord(c) for c in d0s]))
                return {"h": h, "factor": f}
            qs.append(_q(f"double_hvh[f={f},{d0s[0]}-{d0s[-1]}]", k_double_hvh, bh, "bv", secs, weight=4))
            def bk(ctx, lo=lo, hi=hi, f=f):
                k = symx.sym_int(ctx, "k", lo, hi)
                ctx.assume((k != 32767).e)
                return {"k": k, "factor": f}
            qs.append(_q(f"double_vhv[f={f},{lo}-{hi}]", k_double_vhv, bk, "bv", secs, weight=4))
        qs.append(_q(f"double_range[f={f}]", k_double_vhv, lambda ctx, f=f: {"k": symx.sym_int(ctx, "k", 65536, 99999), "factor": f, "in_range": False}, "bv", secs, weight=2))

    # --- bool / sentinels / flags / str (no floats: int mode)
    qs.append(_q("bool_hvh", k_bool_hvh, lambda ctx: {"h": symx.sym_hex(ctx, "h", 2)}))
    qs.append(_q("sentinels", k_bool_vhv, lambda ctx: {}))
    for lsb in (False, True):
        qs.append(_q(f"flag8_hvh[lsb={lsb}]", k_flag8_hvh, lambda ctx, lsb=lsb: {"h": symx.sym_hex(ctx, "h", 2), "lsb": lsb}))
        qs.append(_q(f"flag8_vhv[lsb={lsb}]", k_flag8_vhv, lambda ctx, lsb=lsb: {"flags": [symx.sym_int(ctx, f"b{i}", 0, 1) for i in range(8)], "lsb": lsb}))
    for n in ((1, 2, 3, 5, 8) if not thorough else range(1, 13)):
        def bs(ctx, n=n):
            s = symx.sym_printable(ctx, "s", n)
            ctx.assume(s.chars[0] != 32)
            ctx.assume(s.chars[-1] != 32)
            return {"s": s}
        qs.append(_q(f"str_vhv[n={n}]", k_str_vhv, bs))

    # --- date-times (Gregorian model)
    def bdt(ctx, ylo, yhi):
        return SymDateTime(symx.sym_int(ctx, "year", ylo, yhi), symx.sym_int(ctx, "month", 1, 12), symx.sym_int(ctx, "day", 1, 31),
                           symx.sym_int(ctx, "hour", 0, 23), symx.sym_int(ctx, "minute", 0, 59), symx.sym_int(ctx, "second", 0, 59))
    def reg_dt(ctx, d):
        ctx.inputs["dt"] = d
        for k in ("year", "month", "day", "hour", "minute", "second"):
            ctx.inputs.pop(k, None)
        return d
    for dst in (False, True):
        for secs_ in (False, True):
            def b(ctx, dst=dst, secs_=secs_):
                try:
                    d = bdt(ctx, 1, 9999)
                except ValueError:
                    from symx import PathAbort
                    raise PathAbort()
                return {"dt": reg_dt(ctx, d), "is_dst": dst, "incl_seconds": secs_}
            qs.append(_q(f"dtm_vhv[dst={dst},secs={secs_}]", k_dtm_vhv, b, "bv", secs, weight=2, width=64))
    def bdts(ctx):
        try:
            d = bdt(ctx, 2000, 2099)
        except ValueError:
            from symx import PathAbort
            raise PathAbort()
        return {"dt": reg_dt(ctx, d)}
    qs.append(_q("dts_vhv[2000-2099]", k_dts_vhv, bdts, "bv", secs, weight=2, width=64))
    def bdts_text(ctx, ylo, yhi):
        import z3
        from symx.stubs import days_in_month_cond
        from symx.strings import mk
        f = {k: symx.sym_digits(ctx, k, 2) for k in ("yy", "mo", "dd", "hh", "mi", "ss")}
        v = {k: symx.values.sx_int(x).e for k, x in f.items()}
        year = z3.If(v["yy"] <= 68, v["yy"] + 2000, v["yy"] + 1900)  # the %y pivot of strptime
        ctx.assume(z3.And(v["yy"] >= ylo, v["yy"] <= yhi, days_in_month_cond(year, v["mo"], v["dd"]), v["hh"] <= 23, v["mi"] <= 59, v["ss"] <= 59))
        t = mk(list(f["yy"].chars) + ["-"] + list(f["mo"].chars) + ["-"] + list(f["dd"].chars) + ["T"] + list(f["hh"].chars) + [":"] + list(f["mi"].chars) + [":"] + list(f["ss"].chars))
        for k in f:
            ctx.inputs.pop(k, None)
        ctx.inputs["t"] = t
        return {"t": t}
    for ylo, yhi in ((0, 68), (69, 99)):
        qs.append(_q(f"dts_text[yy={ylo}-{yhi}]", k_dts_text, lambda ctx, a=ylo, b=yhi: bdts_text(ctx, a, b), "bv", secs, weight=2, width=64))
    def bdate(ctx):
        import z3
        from symx.stubs import days_in_month_cond
        y, m, d = symx.sym_int(ctx, "y", 0, 65535), symx.sym_int(ctx, "m", 0, 255), symx.sym_int(ctx, "d", 0, 255)
        valid = symx.flag(ctx, "valid")
        c = days_in_month_cond(y.e, m.e, (d & 0x1F).e)
        ctx.assume(c if valid else z3.Not(c))
        return {"y": y, "m": m, "d": d, "valid": valid}
    qs.append(_q("date", k_date, bdate, "bv", secs, width=64))

    # --- device ids
    for d0 in (HEXD if thorough else "048CF"):
        qs.append(_q(f"id_hvh[{d0}xxxxx]", k_id_hvh, lambda ctx, d0=d0: {"h": d0 + symx.sym_hex(ctx, "h5", 5)}, "bv", secs, weight=2, width=64))
    def bid(ctx, in_range):
        import z3
        tt, n = symx.sym_digits(ctx, "tt", 2), symx.sym_digits(ctx, "n", 6)
        tv, nv = symx.values.sx_int(tt), symx.values.sx_int(n)
        c = z3.And(tv.e <= 63, nv.e < 2**18)
        ctx.assume(c if in_range else z3.Not(c))
        return {"tt": tt, "n": n, "in_range": in_range}
    qs.append(_q("id_vhv[in-range]", k_id_vhv, lambda ctx: bid(ctx, True), "bv", secs, weight=2, width=64))
    qs.append(_q("id_vhv[out-of-range]", k_id_vhv, lambda ctx: bid(ctx, False), "bv", secs, weight=2, width=64))

    # --- schedule setpoint packing (FP)
    for lo, hi in ((500, 1500), (1501, 2500), (2501, 3500)):
        qs.append(_q(f"sched_setpoint[{lo},{hi}]", k_sched_setpoint, lambda ctx, lo=lo, hi=hi: {"k": symx.sym_int(ctx, "k", lo, hi)}, "bv", secs, weight=3))

    # --- canary: a deliberately false obligation at a real site must be caught
    qs.append(_q("canary:flag8", k_flag8_hvh, lambda ctx: {"h": symx.sym_hex(ctx, "h", 2), "lsb": False}, canary="all"))
    if os.environ.get("C04_ONLY"):
        qs = [q for q in qs if os.environ["C04_ONLY"] in q.name]
    return qs


# ------------------------------------------------------------------------------------------


def replay(item):
    """plain interpreter, uninstrumented package: re-run the kernel on the concrete counterexample"""
    kernel = KERNELS[item["params"]["kernel"]]
    inp = dict(item["cex"])
    for k in ("high_res", "factor", "lsb", "is_dst", "incl_seconds", "in_range"):
        pass
    inp.update({k: v for k, v in _static_params(item).items() if k not in inp})
    if "h3" in inp:
        inp["h"] = item["params"]["first_nibble"] + inp["h3"]
    if "h5" in inp:
        inp["h"] = item["query"].split("[")[1][0] + inp["h5"]
    if "flags" not in inp and "b0" in inp:
        inp["flags"] = [inp[f"b{i}"] for i in range(8)]
    failed = []

    def chk(cond, label, info=None):
        if not cond:
            failed.append(label)
        return bool(cond)

    try:
        out = kernel(inp, chk)
    except Exception as e:  # noqa: BLE001
        return {"reproduced": True, "observed": f"{type(e).__name__}: {e}", "signature": f"{kernel.__name__}:raises:{type(e).__name__}"}
    if item["label"] in failed:
        return {"reproduced": True, "observed": f"{item['label']} fails for {item['cex']} ({out})", "signature": _signature(item["label"], inp)}
    return {"reproduced": False, "observed": f"holds concretely ({out}); failed={failed}", "signature": None}


def _static_params(item):
    """inputs that are fixed per query (not solver variables) are recovered from the query name"""
    import re

    name = item["query"]
    out = {}
    m = re.search(r"high_res=(True|False)", name)
    if m:
        out["high_res"] = m.group(1) == "True"
    m = re.search(r"f=(\d+)", name)
    if m:
        out["factor"] = int(m.group(1))
    m = re.search(r"lsb=(True|False)", name)
    if m:
        out["lsb"] = m.group(1) == "True"
    m = re.search(r"dst=(True|False),secs=(True|False)", name)
    if m:
        out["is_dst"], out["incl_seconds"] = m.group(1) == "True", m.group(2) == "True"
    if "out-of-range" in name or re.search(r"_(range|neg)\[", name):
        out["in_range"] = False
    return out


def _signature(label, inp):
    if label in ("temp:h->v->h", "temp:v->h->v"):
        return "hex_from_temp: int(value*100) truncates (1 LSB)"
    if label.startswith("temp:out-of-range"):
        return "hex_from_temp: out-of-range value wraps to a different temperature"
    if label in ("percent:h->v->h", "percent:v->h->v"):
        return "hex_from_percent: int(value*N) truncates (1 LSB)"
    if label in ("double:h->v->h", "double:v->h->v"):
        return "hex_from_double: int(value*factor) truncates (1 LSB)"
    if label == "double:out-of-range-wraps":
        return "hex_from_double: out-of-range value wraps"
    if label == "sched:setpoint":
        return "schedule._struct_pack: int(setpoint*100) truncates (1 LSB)"
    if label == "dts:v->h->v":
        d = inp.get("dt")
        if d and (d[0] if isinstance(d, (list, tuple)) else 1) % 100 == 0:
            return "hex_to_dts: year xx00 encodes to year field 0 which the decoder rejects"
    if "out-of-range-wraps" in label and label.startswith("id:"):
        return "dev id encoders: type > 63 or number >= 2^18 wraps into a different id"
    return label
