"""C01 - reception is total: bad input is rejected cleanly and never stops the stream.

(a) decode totality - the real Packet factories + Message(pkt) on frame lines with symbolic
    parts (whole payloads, 2-byte windows of logged payloads, one header field at a time as
    arbitrary printable text, symbolic device-type digits): the only exceptions that may leave are
    the invalid-packet error (and ValueError from the Packet factory);
(b) stream continuation - the real ``_ReadTransport._frame_read`` / ``FileTransport._reader`` /
    ``_BaseProtocol._pkt_received`` replaying a 3-entry source whose middle entry is symbolic: no
    exception leaves, and the third entry is always delivered;
(c) read partitioning - one inductive step of the real ``PortTransport._read_ready``: for an
    arbitrary CRLF-free buffer B and an arbitrary chunk D it emits exactly the CRLF-terminated
    lines of B+D, in order, and keeps exactly the unterminated (CRLF-free) tail - hence the frames
    delivered depend only on the byte stream, for streams and partitions of any length;
    ``_str``/``_normalise`` then run on symbolic printable lines through ``_frame_read``."""
from __future__ import annotations

import os
import types

from checks import common
from checks import decode as D
from symx.runner import Query

PROPERTY = "C01"
LEVEL = "other"
EXPLANATION = __doc__
FUNCTIONS = [
    "ramses_tx.packet:Packet.__init__", "ramses_tx.packet:Packet._validate", "ramses_tx.packet:Packet._partition", "ramses_tx.packet:Packet.from_file",
    "ramses_tx.packet:Packet.from_port", "ramses_tx.packet:Packet.from_dict", "ramses_tx.packet:pkt_lifespan",
    "ramses_tx.frame:Frame.__init__", "ramses_tx.frame:Frame._validate", "ramses_tx.frame:Frame._has_array", "ramses_tx.frame:Frame._has_ctl", "ramses_tx.frame:_pkt_idx",
    "ramses_tx.frame:pkt_header", "ramses_tx.address:pkt_addrs", "ramses_tx.address:id_to_address",
    "ramses_tx.message:MessageBase.__init__", "ramses_tx.message:MessageBase._validate", "ramses_tx.message:MessageBase._idx", "ramses_tx.message:_check_msg_payload",
    "ramses_tx.parsers:parse_payload", "ramses_tx.transport:_ReadTransport._frame_read", "ramses_tx.transport:FileTransport._reader",
    "ramses_tx.transport:PortTransport._read_ready", "ramses_tx.transport:_str", "ramses_tx.transport:_normalise", "ramses_tx.protocol:_BaseProtocol._pkt_received",
]
BOUNDS = {
    "quick": {"full payloads": "every verb/code of CODES_SCHEMA, the shortest regex-admissible length <= 4 bytes, 2 address shapes, symbolic device-type digits",
              "windows": "1 logged base payload per verb/code pair, every 2-byte window", "fields": "8 header fields x widths -1/0/+1 on 3 base frames",
              "stream": "3-entry dict and log sources, middle entry: 2-byte window / arbitrary header field", "read partitioning": "|B| <= 3, |D| <= 4 bytes, every byte symbolic (0..255)"},
    "thorough": {"full payloads": "every verb/code, up to 3 admissible lengths <= 6 bytes, 4 address shapes", "windows": "up to 4 logged base payloads (distinct lengths) per pair, every 2-byte window and every 3-byte window",
                 "fields": "8 header fields x widths -1/0/+1 on 8 base frames", "stream": "as quick + from_port/from_dict factories", "read partitioning": "|B| <= 5, |D| <= 6"},
}
OUTSIDE = ["non-ASCII text in log files (the port path filters to string.printable; \\d is modelled as ASCII digits)", "payload bytes outside the symbolic window (they keep their logged value)",
           "the MQTT JSON envelope", "logging side effects (handlers disabled; message arguments are still evaluated)"]
STUBS = ["serial.read -> the symbolic chunk; transport self -> stub object carrying only the attributes the real methods read",
         "for (c) only: _str/_normalise/_frame_read replaced by recorders (they are exercised by the 'line' queries)", "lru_cache of pkt_addrs/id_to_address bypassed when the address text is symbolic"]
ASSUMPTIONS = ["ValueError from the Packet factories counts as a clean rejection (the receive path treats it like the invalid-packet error)"]
MIN_CONCLUSIVE_FRACTION = 0.7
OPTIONAL_GROUPS = ("fullx",)


def setup(tier):
    common.install(td_modules=("ramses_tx.parsers", "ramses_tx.transport"))
    import ramses_tx.message  # noqa: F401
    import ramses_tx.transport  # noqa: F401


# ------------------------------------------------------------------------------------------
# (b) stream continuation

GOOD1 = ("2023-01-01T00:00:01.000000", "045  I --- 01:145038 --:------ 01:145038 30C9 003 0007D0")
GOOD3 = ("2023-01-01T00:00:03.000000", "045  I --- 01:145038 --:------ 01:145038 2309 003 0107D0")


class _Proto:
    """stand-in protocol: the real _BaseProtocol._pkt_received with a recording _msg_received"""

    def __init__(self):
        self.msgs = []
        self._this_msg = self._prev_msg = None

    def _msg_received(self, msg):
        self.msgs.append(msg)

    def pkt_received(self, pkt):
        from ramses_tx.protocol import _BaseProtocol

        _BaseProtocol._pkt_received(self, pkt)


class _FileTx:
    """stand-in transport self for the real _frame_read/_pkt_read/_reader"""

    def __init__(self, loop, source):
        from ramses_tx import transport as T

        self._pkt_source = source
        self._reading = True
        self._closing = False
        self._this_pkt = self._prev_pkt = None
        self.loop = self._loop = loop
        self._protocol = _Proto()
        self._frame_read = types.MethodType(T._ReadTransport._frame_read, self)
        self._pkt_read = types.MethodType(T._ReadTransport._pkt_read, self)


def _mk_middle(ctx, kind, base, fields=None):
    import symx

    head, pay = base
    if kind == "window":
        off = symx.choice(ctx, "off", list(range(0, len(pay), 4)))
        w = min(4, len(pay) - off)
        return head + pay[:off] + symx.sym_hex(ctx, "w", w) + pay[off + w :]
    field = symx.choice(ctx, "field", list(fields or D.FIELDS))
    a, b = D.FIELDS[field]
    return head[:a] + symx.sym_printable(ctx, "f", b - a) + head[b:] + pay


def h_stream(ctx, source_kind, mid_kind, base, fields=None):
    """3-entry source, symbolic middle entry: nothing escapes, the third entry is delivered"""
    import io

    from ramses_tx import transport as T
    from symx.vloop import VLoop

    mid = _mk_middle(ctx, mid_kind, base, fields)
    loop = VLoop(0)
    if source_kind == "dict":
        src = {GOOD1[0]: GOOD1[1], "2023-01-01T00:00:02.000000": mid, GOOD3[0]: GOOD3[1]}
    else:

        class _Log(io.TextIOWrapper):
            def __init__(self, lines):
                super().__init__(io.BytesIO(b""))
                self._lines = lines

            def __iter__(self):
                return iter(self._lines)

        src = _Log([GOOD1[0] + " " + GOOD1[1] + "\n", "\n", "# a comment\n", "2023-01-01T00:00:02.000000 " + mid + "\n", GOOD3[0] + " " + GOOD3[1] + "\n"])
    tx = _FileTx(loop, src)
    task = loop.create_task(T.FileTransport._reader(tx))
    loop.run(until=task)
    loop.run()
    err = task.exception() if task.done() and not task.cancelled() else None
    ctx.check(err is None, "C01:replay-not-ended-by-a-bad-line", info=type(err).__name__ if err else None)
    ctx.check(not loop.exc_contexts, "C01:no-exception-left-in-the-loop", info=str(loop.exc_contexts[:1])[:120])
    codes = [str(m.code) for m in tx._protocol.msgs]
    ctx.check(len(codes) >= 2 and codes[0] == "30C9" and codes[-1] == "2309", "C01:lines-after-a-bad-line-are-delivered", info=codes)
    return f"{len(codes)} delivered"


# ------------------------------------------------------------------------------------------
# (c) read partitioning


class SymByteStr:
    """bytes whose values are cells (ints or z3 code points 0..255), backed by a SymStr"""

    def __init__(self, s):
        self.s = s  # str | SymStr (latin-1 view)

    @staticmethod
    def _of(x):
        if isinstance(x, SymByteStr):
            return x.s
        if isinstance(x, (bytes, bytearray)):
            return x.decode("latin-1")
        raise TypeError(type(x))

    def __add__(self, o):
        return SymByteStr(self.s + self._of(o))

    def __radd__(self, o):
        return SymByteStr(self._of(o) + self.s)

    def __len__(self):
        return len(self.s)

    def __bool__(self):
        return len(self.s) > 0

    def __getitem__(self, k):
        r = self.s[k]
        return SymByteStr(r) if isinstance(k, slice) else r

    def __sx_contains__(self, item):
        from symx.strings import _contains

        return _contains(self.s, self._of(item))

    def __contains__(self, item):
        return bool(self.__sx_contains__(item))

    def split(self, sep):
        from symx.strings import SymStr

        s = self.s if isinstance(self.s, SymStr) else SymStr(list(self.s))
        return [SymByteStr(p) for p in s.split(self._of(sep))]

    def decode(self, enc="ascii", errors="strict"):
        return self.s  # the recorders used in (c) never decode


def h_partition(ctx, nb, nd):
    import symx
    from ramses_tx import transport as T
    from symx.strings import sx_eq

    B = symx.sym_chars(ctx, "B", nb, lo=0, hi=255) if nb else ""
    Dd = symx.sym_chars(ctx, "D", nd, lo=0, hi=255)
    if nb >= 2:  # the buffer invariant: no complete line is ever left in it
        has = SymByteStr(B).__sx_contains__(b"\r\n")
        if not isinstance(has, bool):
            ctx.assume(symx.s_not(has).e)
    emitted = []

    class _Serial:
        def read(self, n):
            return SymByteStr(Dd)

    class _Tx:
        _recv_buffer = SymByteStr(B) if nb else b""
        _max_read_size = 1024
        _closing = False
        serial = _Serial()

        def _dt_now(self):
            from datetime import datetime

            return datetime(2023, 1, 1)

        def _frame_read(self, dtm, line):
            emitted.append(line)

    saved = (T._str, T._normalise)
    T._str = lambda v: v
    T._normalise = lambda v: v
    try:
        tx = _Tx()
        T.PortTransport._read_ready(tx)
    finally:
        T._str, T._normalise = saved
    tail = tx._recv_buffer
    tail_s = SymByteStr._of(tail)
    total = B + Dd
    # concatenation of what was emitted and what was kept is exactly what was received
    joined = ""
    for e in emitted:
        joined = joined + SymByteStr._of(e)
    joined = joined + tail_s
    ctx.check(len(joined) == len(total) and sx_eq(joined, total), "C01:emitted-lines-plus-tail-are-the-bytes-received")
    has = SymByteStr(tail_s).__sx_contains__(b"\r\n") if len(tail_s) >= 2 else False
    ctx.check(symx.s_not(has), "C01:kept-tail-has-no-line-end")
    for e in emitted:
        es = SymByteStr._of(e)
        ok_end = len(es) >= 2 and sx_eq(es[-2:], "\r\n")
        body = es[:-2]
        inner = SymByteStr(body + es[-2:-1]).__sx_contains__(b"\r\n") if len(es) >= 3 else False
        ctx.check(symx.s_and(ok_end, symx.s_not(inner)), "C01:each-emitted-line-is-one-CRLF-terminated-line")
    return f"{len(emitted)} lines, tail {len(tail_s)}"


def run_portstream(first, second):
    """two frames through the serial receive path proper: the decorated PortTransport._pkt_read (sync-cycle
    tracker) on a bare PortTransport; -> (exception | None, codes delivered, loop exceptions)"""
    import asyncio

    from ramses_tx import transport as T
    from symx.vloop import VLoop, running

    loop = VLoop(0)
    tx = object.__new__(T.PortTransport)
    tx._loop = loop
    tx._closing = False
    tx._this_pkt = tx._prev_pkt = None
    tx._extra = {}
    tx._inbound_rule, tx._outbound_rule = {}, {}
    tx._protocol = _Proto()
    with running(loop):
        tx._init_fut = loop.create_future()
        tx._init_fut.set_result(None)
    T._global_sync_cycles.clear()
    err = None
    try:
        for k, line in enumerate((first, second)):
            tx._frame_read(f"2023-01-01T00:00:0{k}.000", line)
    except Exception as e:  # noqa: BLE001
        err = e
    loop.run()
    return err, [str(m.code) for m in tx._protocol.msgs], loop.exc_contexts


def h_portstream(ctx, head, pay, head2, pay2):
    """a truncated / corrupted first frame must not make the receive path raise on a later good frame"""
    import symx

    kind = symx.choice(ctx, "first", ["truncated", "window"])
    if kind == "truncated":
        n = symx.choice(ctx, "n", list(range(1, len(pay) // 2 + 1)))
        first = head[:46] + f"{n:03d}" + " " + pay[: 2 * n]
    else:
        off = symx.choice(ctx, "off", list(range(0, len(pay), 4)))
        w = min(4, len(pay) - off)
        first = head + pay[:off] + symx.sym_hex(ctx, "w", w) + pay[off + w :]
    err, codes, excs = run_portstream(first, head2 + pay2)
    ctx.check(err is None, "C01:serial-receive-path-never-raises", info=type(err).__name__ if err else None)
    ctx.check(not excs, "C01:no-exception-left-in-the-loop", info=str(excs[:1])[:100])
    ctx.check(bool(codes) and codes[-1] == head2[41:45], "C01:lines-after-a-bad-line-are-delivered", info=codes)
    return len(codes)


BIG = ("045  I --- 01:145038 --:------ 01:145038 30C9 003 0007D0\r\n" * 14).encode("ascii")  # 840 bytes, 14 frames


def h_partition_big(ctx):
    """a buffer tail (2 symbolic bytes) + one read of 840 bytes holding 14 frames: all 14 come out"""
    import symx
    from ramses_tx import transport as T

    B = symx.sym_chars(ctx, "B", 2, lo=0, hi=255)
    has = SymByteStr(B).__sx_contains__(b"\r\n")
    if not isinstance(has, bool):
        ctx.assume(symx.s_not(has).e)
    emitted = []

    class _Serial:
        def read(self, n):
            return SymByteStr(BIG.decode("latin-1"))

    class _Tx:
        _recv_buffer = SymByteStr(B)
        _max_read_size = 4096
        _closing = False
        serial = _Serial()

        def _dt_now(self):
            from datetime import datetime

            return datetime(2023, 1, 1)

        def _frame_read(self, dtm, line):
            emitted.append(line)

    saved = (T._str, T._normalise)
    T._str = lambda v: v
    T._normalise = lambda v: v
    try:
        tx = _Tx()
        T.PortTransport._read_ready(tx)
    finally:
        T._str, T._normalise = saved
    ctx.check(len(emitted) == 14, "C01:emitted-lines-plus-tail-are-the-bytes-received", info=f"{len(emitted)} of 14 lines from one 840-byte read")
    tail = SymByteStr._of(tx._recv_buffer)
    ctx.check(len(tail) == 0, "C01:kept-tail-has-no-line-end", info=f"tail of {len(tail)} bytes")
    return len(emitted)


def h_line(ctx, n, lead):
    """_normalise(_str(raw)) + _frame_read on an arbitrary printable line of n characters (plus CRLF)"""
    import symx
    from ramses_tx import transport as T
    from symx.vloop import VLoop

    raw = lead + symx.sym_chars(ctx, "s", n, lo=32, hi=126)
    loop = VLoop(0)
    tx = _FileTx(loop, {})
    try:
        line = T._normalise(raw + "\r\n")
        tx._frame_read("2023-01-01T00:00:02.000", line)
    except Exception as e:  # noqa: BLE001
        ctx.check(False, "C01:serial-line-never-raises", info=type(e).__name__)
        return "exc"
    loop.run()
    ctx.check(not loop.exc_contexts, "C01:no-exception-left-in-the-loop")
    ctx.check(True, "C01:serial-line-never-raises")
    return f"{len(tx._protocol.msgs)} delivered"


# ------------------------------------------------------------------------------------------


def _bases(nbase, seed=0):
    """[(verb, code, head, pay)] - up to nbase logged frames (distinct lengths) per verb/code that decode"""
    out = []
    for (verb, code), frames in sorted(D.corpus().items()):
        k = 0
        for head, pay, tail in frames:
            if not D.decodes_ok(head, pay, tail):
                continue
            out.append((verb, code, head, pay))
            k += 1
            if k >= nbase:
                break
    return out


def _lenset(nodes, cap=96):
    """set of string lengths a regex node sequence can match (exact for the classic operators)"""
    import re._constants as sc

    cur = {0}
    for op, av in nodes:
        if op in (sc.LITERAL, sc.NOT_LITERAL, sc.ANY, sc.IN):
            step = {1}
        elif op is sc.AT:
            step = {0}
        elif op is sc.SUBPATTERN:
            step = _lenset(list(av[3]), cap)
        elif op is sc.BRANCH:
            step = set()
            for alt in av[1]:
                step |= _lenset(list(alt), cap)
        elif op in (sc.MAX_REPEAT, sc.MIN_REPEAT, getattr(sc, "POSSESSIVE_REPEAT", None)):
            lo, hi, sub = av
            one = _lenset(list(sub), cap)
            step, level, k = ({0} if lo == 0 else set()), {0}, 0
            limit = cap if hi is sc.MAXREPEAT else hi
            while k < limit:
                level = {x + y for x in level for y in one if x + y <= cap}
                k += 1
                if not level:
                    break
                if k >= lo:
                    if level <= step:
                        break
                    step |= level
        else:
            raise ValueError(f"regex op {op}")
        cur = {x + y for x in cur for y in step if x + y <= cap}
    return cur


def _admissible_lengths(maxn):
    """{(verb, code): [payload byte counts <= maxn the per-code regex admits]} - from the parse tree of
    the code's own regex (validated against re on a sample string per length by the self-check)"""
    import re
    import re._constants as sc
    import re._parser as sre_parse

    from ramses_tx.ramses import CODES_SCHEMA

    out, memo = {}, {}
    for code, sch in CODES_SCHEMA.items():
        for verb in (" I", "RQ", "RP", " W"):
            pat = sch.get(verb)
            if not isinstance(pat, str):
                continue
            if pat not in memo:
                tree = list(sre_parse.parse(pat))
                ls = _lenset(tree)
                anchored = bool(tree) and tree[-1][0] is sc.AT and tree[-1][1] in (sc.AT_END, sc.AT_END_STRING)
                if not anchored and ls:
                    ls = set(range(min(ls), 97))
                memo[pat] = sorted(n // 2 for n in ls if n % 2 == 0 and 2 <= n <= 2 * maxn)
            out[(verb, str(code))] = memo[pat]
    return out


def decode_queries(prop, tier, seed):
    """the (a)-family shared by C01 and C05"""
    thorough = tier == "thorough"
    qs = []
    secs = 240 if thorough else 45
    # windows of logged payloads
    for verb, code, head, pay in _bases(4 if thorough else 1):
        widths = (4, 6) if thorough else (4,)
        mode = "bv" if code == "3220" else "int"
        for W in widths:
            for off in range(0, len(pay), 4):
                w = min(W, len(pay) - off)
                if W == 6 and w < 6:
                    continue
                via = ("file", "port", "dict")[(off // 4) % 3] if prop == "C01" else "file"
                qs.append(Query(f"win[{verb}|{code}|{len(pay) // 2}@{off}+{w}]", lambda c, a=(head, pay, "", off, w, via): D.h_window(c, prop, *a),
                                {"h": "win", "head": head, "pay": pay, "off": off, "w": w, "via": via}, group=f"win:{code}", max_secs=secs * (3 if mode == "bv" else 1), max_paths=20_000, mode=mode, weight=len(pay) / 100 + (5 if mode == "bv" else 0)))
    # every logged frame cut down to each shorter payload length
    for verb, code, head, pay in _bases(2 if thorough else 1):
        if len(pay) >= 4:
            qs.append(Query(f"trunc[{verb}|{code}|{len(pay) // 2}]", lambda c, a=(head, pay): D.h_trunc(c, prop, *a), {"h": "trunc", "head": head, "pay": pay}, group="trunc", max_secs=120, weight=1))
    if prop == "C05":
        # the logged frames themselves, nothing symbolic: the real lru_caches / memoised attributes are all
        # active here (they are bypassed for symbolic arguments), so order- and cache-dependence shows
        allb = _bases(4 if thorough else 2)
        for i in range(0, len(allb), 25):
            chunk = allb[i : i + 25]

            def conc(c, chunk=chunk):
                for verb, code, head, pay in chunk:
                    D.h_window(c, "C05", head, pay, "", 0, 0)
                return len(chunk)

            qs.append(Query(f"conc[{i // 25}]", conc, {"h": "conc", "frames": [[h, p] for _, _, h, p in chunk]}, group="conc", max_secs=120, weight=1))
    # whole payloads of the shortest admissible lengths
    maxn = 6 if thorough else 4
    adm = _admissible_lengths(48)
    logged = {(v, c) for v, c, _, _ in _bases(1)}
    for (verb, code), ls in sorted(adm.items()):
        # verb/code pairs with no logged frame: whole payloads at the longer admissible lengths too
        # (often inconclusive within the budget - an optional group, reported as such)
        if (verb, code) in logged or code == "3220":
            continue
        longer = [n for n in ls if n > maxn and n <= 30]
        for n in ([longer[0], longer[-1]] if len(longer) > 1 else longer):
            qs.append(Query(f"fullx[{verb}|{code}|{n}]", lambda c, a=(verb, code, n, 0, False): D.h_full(c, prop, *a), {"h": "full", "verb": verb, "code": code, "n": n, "shape": 0, "symtypes": False},
                            group=f"fullx:{code}", max_secs=240 if thorough else 15, max_paths=50_000, weight=0.5))
    for (verb, code), ls in sorted((k, [n for n in v if n <= maxn]) for k, v in adm.items()):
        if code == "3220":
            continue  # OpenTherm: covered by the windows (bit-vector mode)
        for n in ls[: 3 if thorough else 1]:
            for shape in ((0, 1, 2, 3) if thorough else (0, 1)):
                qs.append(Query(f"full[{verb}|{code}|{n}|s{shape}]", lambda c, a=(verb, code, n, shape): D.h_full(c, prop, *a), {"h": "full", "verb": verb, "code": code, "n": n, "shape": shape},
                                group=f"full:{code}", max_secs=secs * 2, max_paths=50_000, weight=n))
    return qs


def queries(tier, seed):
    thorough = tier == "thorough"
    qs = decode_queries("C01", tier, seed)
    bases = _bases(1)
    pick = [b for b in bases if (b[0], b[1]) in ((" I", "30C9"), ("RQ", "0404"), ("RP", "0418"), (" I", "1FC9"), (" W", "2309"), ("RP", "3150"), (" I", "31DA"), ("RQ", "000C"))]
    pick = pick[: 8 if thorough else 3]
    for bi, (verb, code, head, pay) in enumerate(pick):
        for field in D.FIELDS:
            for dw in (-1, 0, 1):
                if not thorough and field.startswith("addr") and (bi > 0 or dw != 0):
                    continue  # address syntax does not depend on the code: one base, same width (others: thorough)
                qs.append(Query(f"field[{verb}|{code}|{field}{dw:+d}]", lambda c, a=(head, pay, field, dw): D.h_field(c, *a), {"h": "field", "head": head, "pay": pay, "field": field, "dw": dw},
                                group="field", max_secs=120, max_paths=20_000, weight=2))
    for bi, (verb, code, head, pay) in enumerate(pick):
        for via in (("file", "port", "dict") if thorough else ("file",)):
            qs.append(Query(f"addrset[{verb}|{code}|{via}]", lambda c, a=(head, pay, via): D.h_addrset(c, *a), {"h": "addrset", "head": head, "pay": pay, "via": via}, group="addrset", max_secs=200, weight=3))
    sbase = [(h, p) for v, c, h, p in bases if (v, c) in ((" I", "30C9"), ("RP", "0418"))] or [(bases[0][2], bases[0][3])]
    for sk in ("dict", "log"):
        for mk in ("window", "field"):
            for bi, b in enumerate(sbase[: 2 if thorough else 1]):
                fields = None if thorough else ["rssi", "verb", "seqn", "code", "len"]
                qs.append(Query(f"stream[{sk}|{mk}|{bi}]", lambda c, a=(sk, mk, b, fields): h_stream(c, *a), {"h": "stream", "source": sk, "mid": mk, "base": list(b)}, group="stream", max_secs=900 if thorough else 200, max_paths=100_000, weight=8,
                                split_depth=(8 if thorough and mk == "field" else None)))
    for nb in range(0, (6 if thorough else 4)):
        for nd in range(1, (7 if thorough else 5)):
            qs.append(Query(f"partition[B={nb},D={nd}]", lambda c, a=(nb, nd): h_partition(c, *a), {"h": "partition", "nb": nb, "nd": nd}, group="partition", max_secs=600 if thorough else 120, max_paths=200_000, weight=nb + nd))
    # the serial receive path proper (sync-cycle tracker): a bad frame, then a good one of the same code from another device
    for code in (("1F09", "30C9", "2309", "3150", "0008", "1FC9") if thorough else ("1F09", "30C9", "2309")):
        b = next(((v, c, h, p) for v, c, h, p in bases if c == code and v == " I"), None)
        if b:
            head2 = b[2][:11] + "01:999999 --:------ 01:999999" + b[2][40:]
            qs.append(Query(f"portstream[{code}]", lambda c, a=(b[2], b[3], head2, b[3]): h_portstream(c, *a), {"h": "portstream", "head": b[2], "pay": b[3], "head2": head2, "pay2": b[3]}, group="stream", max_secs=200, weight=4))
    # one big read (many frames at once) on top of a symbolic buffer
    qs.append(Query("partition[big]", lambda c: h_partition_big(c), {"h": "partition_big"}, group="partition", max_secs=300, weight=6))
    for n in ((2, 4, 6, 8) if thorough else (2, 4)):
        for lead in ("", "045  I --- 01:145038 --:------ 01:145038 30C9 003 0007", "# evofw3 "):
            qs.append(Query(f"line[{n}|{len(lead)}]", lambda c, a=(n, lead): h_line(c, *a), {"h": "line", "n": n, "lead": lead}, group="line", max_secs=240, max_paths=100_000, weight=n))

    def canary(c):
        # the third line must NOT be claimed delivered when the reader is fed only two lines
        out = h_stream(c, "dict", "window", sbase[0])
        c.check(out.startswith("9"), "canary")

    qs.append(Query("canary:stream", canary, canary=True))
    only = os.environ.get("C01_ONLY")
    if only:
        qs = [q for q in qs if only in q.name or q.canary]
    return qs


# ------------------------------------------------------------------------------------------


def replay(item):
    common.plain_imports()
    h = item["params"]["h"]
    if h in ("win", "full", "field", "array", "addrset", "trunc"):
        return D.replay_decode(item)
    cex, prm = item["cex"], item["params"]
    if h == "stream":
        return _replay_stream(cex, prm, item["label"])
    if h == "partition":
        return _replay_partition(cex, prm, item["label"])
    if h == "line":
        return _replay_line(cex, prm, item["label"])
    if h == "portstream":
        pay = prm["pay"]
        if cex.get("first") == "truncated":
            n = int(cex["n"])
            first = prm["head"][:46] + f"{n:03d}" + " " + pay[: 2 * n]
        else:
            off = int(cex.get("off", 0))
            w = min(4, len(pay) - off)
            first = prm["head"] + pay[:off] + cex.get("w", pay[off : off + w]) + pay[off + w :]
        err, codes, excs = run_portstream_plain(first, prm["head2"] + prm["pay2"])
        bad = err is not None or bool(excs) or not codes or codes[-1] != prm["head2"][41:45]
        return {"reproduced": bad, "observed": f"{first!r} then a good {prm['head2'][41:45]}: raised {type(err).__name__ if err else None}, delivered {codes}, loop exceptions {len(excs)}", "signature": f"serial receive path raises {type(err).__name__}" if err else "serial receive path: later line not delivered"}
    if h == "partition_big":
        from ramses_tx import transport as T

        B = cex.get("B", "").encode("latin-1")
        emitted = []

        class _Serial:
            def read(self, n):
                return BIG

        class _Tx:
            _recv_buffer = B
            _max_read_size = 4096
            _closing = False
            serial = _Serial()

            def _dt_now(self):
                from datetime import datetime

                return datetime(2023, 1, 1)

            def _frame_read(self, dtm, line):
                emitted.append(line)

        saved = (T._str, T._normalise)
        T._str = lambda v: v
        T._normalise = lambda v: v
        try:
            tx = _Tx()
            T.PortTransport._read_ready(tx)
        finally:
            T._str, T._normalise = saved
        return {"reproduced": len(emitted) != 14, "observed": f"buffer {B!r} + one 840-byte read of 14 frames -> {len(emitted)} lines emitted", "signature": "read partitioning: frames of a large read are lost"}
    return {"reproduced": False, "observed": f"no replay for {h}", "signature": None, "runner_error": True}


def run_portstream_plain(first, second):
    import asyncio

    from ramses_tx import transport as T

    async def go():
        loop = asyncio.get_running_loop()
        tx = object.__new__(T.PortTransport)
        tx._loop = loop
        tx._closing = False
        tx._this_pkt = tx._prev_pkt = None
        tx._extra = {}
        tx._inbound_rule, tx._outbound_rule = {}, {}
        tx._protocol = _Proto()
        tx._init_fut = loop.create_future()
        tx._init_fut.set_result(None)
        T._global_sync_cycles.clear()
        err = None
        try:
            for k, line in enumerate((first, second)):
                tx._frame_read(f"2023-01-01T00:00:0{k}.000", line)
        except Exception as e:  # noqa: BLE001
            err = e
        await asyncio.sleep(0.01)
        return err, [str(m.code) for m in tx._protocol.msgs]

    (err, codes), errs = _run_plain_loop(go)
    return err, codes, errs


def _run_plain_loop(coro_fn):
    import asyncio

    loop = asyncio.new_event_loop()
    errs = []
    loop.set_exception_handler(lambda lp, c: errs.append(c))
    try:
        return loop.run_until_complete(coro_fn()), errs
    finally:
        loop.close()


def _replay_stream(cex, prm, label):
    import asyncio
    import io

    from ramses_tx import transport as T

    head, pay = prm["base"]
    if prm["mid"] == "window":
        off = cex["off"]
        w = min(4, len(pay) - off)
        mid = head + pay[:off] + cex["w"] + pay[off + w :]
    else:
        a, b = D.FIELDS[cex["field"]]
        mid = head[:a] + cex["f"] + head[b:] + pay

    async def go():
        loop = asyncio.get_running_loop()
        if prm["source"] == "dict":
            src = {GOOD1[0]: GOOD1[1], "2023-01-01T00:00:02.000000": mid, GOOD3[0]: GOOD3[1]}
        else:
            text = "\n".join([GOOD1[0] + " " + GOOD1[1], "", "# a comment", "2023-01-01T00:00:02.000000 " + mid, GOOD3[0] + " " + GOOD3[1]]) + "\n"
            src = io.TextIOWrapper(io.BytesIO(text.encode("latin-1")), encoding="latin-1")
        tx = _FileTx(loop, src)
        err = None
        try:
            await T.FileTransport._reader(tx)
        except Exception as e:  # noqa: BLE001
            err = e
        await asyncio.sleep(0.01)
        return tx, err

    (tx, err), errs = _run_plain_loop(go)
    codes = [str(m.code) for m in tx._protocol.msgs]
    bad = []
    if err is not None:
        bad.append(f"reader ended with {type(err).__name__}: {err}"[:150])
    if errs:
        bad.append(f"loop exception: {str(errs[0])[:120]}")
    if not (len(codes) >= 2 and codes[0] == "30C9" and codes[-1] == "2309"):
        bad.append(f"delivered {codes}")
    sig = f"stream: {type(err).__name__} ends the replay" if err is not None else "stream: later lines not delivered"
    return {"reproduced": bool(bad), "observed": f"middle line {mid!r}: " + "; ".join(bad), "signature": sig}


def _replay_partition(cex, prm, label):
    from ramses_tx import transport as T

    B = cex.get("B", "").encode("latin-1") if prm["nb"] else b""
    Dd = cex["D"].encode("latin-1")
    emitted = []

    class _Serial:
        def read(self, n):
            return Dd

    class _Tx:
        _recv_buffer = B
        _max_read_size = 1024
        _closing = False
        serial = _Serial()

        def _dt_now(self):
            from datetime import datetime

            return datetime(2023, 1, 1)

        def _frame_read(self, dtm, line):
            emitted.append(line)

    saved = (T._str, T._normalise)
    T._str = lambda v: v
    T._normalise = lambda v: v
    try:
        tx = _Tx()
        T.PortTransport._read_ready(tx)
    finally:
        T._str, T._normalise = saved
    total = B + Dd
    parts = total.split(b"\r\n")
    want_lines, want_tail = [p + b"\r\n" for p in parts[:-1]], parts[-1]
    ok = emitted == want_lines and tx._recv_buffer == want_tail
    return {"reproduced": not ok, "observed": f"buffer {B!r} + read {Dd!r} -> emitted {emitted!r}, kept {tx._recv_buffer!r}; expected {want_lines!r}, {want_tail!r}", "signature": "read partitioning: lines/tail differ from the CRLF split of the bytes received"}


def _replay_line(cex, prm, label):
    import asyncio

    from ramses_tx import transport as T

    raw = prm["lead"] + cex["s"]

    async def go():
        loop = asyncio.get_running_loop()
        tx = _FileTx(loop, {})
        err = None
        try:
            tx._frame_read("2023-01-01T00:00:02.000", T._normalise(T._str((raw + "\r\n").encode("ascii"))))
        except Exception as e:  # noqa: BLE001
            err = e
        await asyncio.sleep(0.01)
        return err

    err, errs = _run_plain_loop(go)
    bad = err is not None or bool(errs)
    return {"reproduced": bad, "observed": f"line {raw!r}: {type(err).__name__ if err else ''} {str(errs[:1])[:100] if errs else ''}", "signature": f"serial line raises {type(err).__name__}" if err else "serial line leaves an exception in the loop"}
