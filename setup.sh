#!/bin/bash
# Build the overlay venv (offline): /venv's packages + z3-solver, cvc5 from the wheelhouse.
set -e
HERE="$(cd "$(dirname "${BASH_SOURCE[0]}")" && pwd)"
cd "$HERE"
exec 9>"$HERE/.setup.lock"; flock 9
if [ -x .venv/bin/python ] && .venv/bin/python -c "import z3, ramses_tx" >/dev/null 2>&1; then exit 0; fi
rm -rf .venv
/venv/bin/python -m venv .venv
SP=$(.venv/bin/python -c "import sysconfig; print(sysconfig.get_paths()['purelib'])")
echo "import site; site.addsitedir('/venv/lib/python3.12/site-packages')" > "$SP/_base.pth"
PIP_NO_INDEX=1 .venv/bin/pip install -q --no-index --find-links /opt/veriftools/wheels z3-solver cvc5
.venv/bin/python -c "import z3, cvc5, ramses_tx; print('symx venv ok: z3', z3.get_version_string())"
