"""Translator validation of the engine itself (DESIGN 2.7).

* decode: every packet line of /repo/tests/tests/**/*.log is decoded by the uninstrumented package
  (plain interpreter, sub-process), by the instrumented package on concrete input, and by the
  instrumented package with its payload re-entered as *pinned* symbolic cells (symbolic code paths
  with a known answer).  Payloads / exception types must be identical.
* regex: the symbolic regex simulator against ``re`` on random strings for every CODES_SCHEMA pattern.
* fp: SymFloat (z3 IEEE-754) against CPython floats on random operands.
* datetime / struct: the stubs against the real implementations.
A disagreement is exit 2."""
from __future__ import annotations

import glob
import json
import math
import os
import random
import re
import subprocess
import sys
import time

VERIF = os.path.dirname(os.path.dirname(os.path.abspath(__file__)))
REPO = os.environ.get("SYMX_REPO", "/repo")

PLAIN_DECODER = r'''
import sys, json, logging
sys.dont_write_bytecode = True
sys.path.insert(0, sys.argv[1])
logging.disable(logging.CRITICAL)
from ramses_tx.packet import Packet
from ramses_tx.message import Message
out = []
for line in json.load(open(sys.argv[2])):
    dtm, frame = line
    try:
        msg = Message(Packet.from_file(dtm, frame))
        out.append(["ok", repr(msg.payload), msg._pkt._hdr, repr(msg._pkt._ctx)])
    except Exception as e:
        out.append(["exc", type(e).__name__])
json.dump(out, open(sys.argv[3], "w"))
'''


def collect_lines(limit=None, seed=0):
    lines = []
    for f in sorted(glob.glob(os.path.join(REPO, "tests/tests/**/*.log"), recursive=True)):
        try:
            for ln in open(f, errors="replace"):
                ln = ln.rstrip("\n")
                if len(ln) < 60 or not re.match(r"^\d{4}-\d\d-\d\dT\d\d:\d\d:\d\d\.\d{6} ", ln):
                    continue
                lines.append((ln[:26], ln[27:]))
        except OSError:
            continue
    # de-duplicate, keep order
    seen, out = set(), []
    for x in lines:
        if x[1] not in seen:
            seen.add(x[1])
            out.append(x)
    if limit and len(out) > limit:
        random.Random(seed).shuffle(out)
        out = out[:limit]
    return out


def _norm(x):
    """compare payloads modulo float formatting"""
    if type(x).__name__ == "Tainted":
        return "<rendered>"
    if isinstance(x, float):
        return round(x, 9)
    if isinstance(x, dict):
        return {k: _norm(v) for k, v in x.items()}
    if isinstance(x, (list, tuple)):
        return [_norm(v) for v in x]
    return x


def _match_rendered(got, exp):
    """a rendered symbolic number/time ('<rendered>') matches any quoted string"""
    if "<rendered>" not in got:
        return False
    pat = re.escape(got).replace(re.escape("'<rendered>'"), r"'[^']*'")
    return re.fullmatch(pat, exp) is not None


def _concretize_payload(p, model):
    from .values import concretize, SymReal, SymInt, SymBool, SymFloat
    from .strings import SymStr

    if isinstance(p, dict):
        return {(_concretize_payload(k, model) if isinstance(k, SymStr) else k): _concretize_payload(v, model) for k, v in p.items()}
    if isinstance(p, (list, tuple)):
        return [_concretize_payload(v, model) for v in p]
    if isinstance(p, SymReal):
        import z3

        v = model.eval(p.e, model_completion=True)
        return v.numerator_as_long() / v.denominator_as_long()
    if isinstance(p, (SymStr, SymInt, SymBool, SymFloat)):
        return concretize(p, model)
    return p


def decode_worker(args):
    """instrumented decode of a chunk of lines: concrete and pinned-symbolic"""
    lines, plain = args
    import symx
    from datetime import datetime as dt
    from ramses_tx.packet import Packet
    from ramses_tx.message import Message

    bad, n_sym_paths, unsupported = [], 0, []
    for (dtm, frame), want in zip(lines, plain):
        # (a) instrumented, concrete
        try:
            msg = Message(Packet.from_file(dtm, frame))
            got = ["ok", repr(msg.payload), msg._pkt._hdr, repr(msg._pkt._ctx)]
        except Exception as e:  # noqa: BLE001
            got = ["exc", type(e).__name__]
        if got != want:
            bad.append({"mode": "instrumented-concrete", "frame": frame, "plain": want, "got": got})
            continue
        # (b) pinned symbolic payload
        m = re.match(r"^(.{3} .. ... \S+ \S+ \S+ \S{4} \d{3} )([0-9A-F]+)(.*)$", frame)
        if not m:
            continue
        head, pay, tail = m.groups()
        want_payload = None
        if want[0] == "ok":
            try:
                want_payload = _norm(eval(want[1], {"__builtins__": {}}, {}))  # repr of plain data
            except Exception:  # noqa: BLE001
                want_payload = None

        def scenario(ctx):
            sym = symx.pinned(ctx, "p", pay)
            try:
                msg = Message(Packet.from_file(dtm, head + sym + tail))
            except Exception as e:  # noqa: BLE001
                return ["exc", type(e).__name__]
            ctx._ensure_model()
            return ["ok", _norm(_concretize_payload(msg.payload, ctx.model)), symx.values.concretize(msg._pkt._hdr, ctx.model), repr(symx.values.concretize(msg._pkt._ctx, ctx.model))]

        r = symx.core.explore(scenario, max_paths=8, max_secs=30)
        n_sym_paths += r.paths
        if r.inconclusive:
            unsupported.append({"frame": frame, "why": r.inconclusive[0]["where"][:160]})
            continue
        outs = list(r.outcomes)
        if len(outs) != 1:
            bad.append({"mode": "pinned-symbolic", "frame": frame, "why": f"{len(outs)} outcomes for a pinned input", "got": outs[:3]})
            continue
        if want[0] == "exc":
            ok = outs[0] == str(["exc", want[1]])
        else:
            exp = str(["ok", want_payload, want[2], want[3]])[:160]
            ok = want_payload is None or outs[0] == exp or _match_rendered(outs[0], exp)
        if not ok:
            bad.append({"mode": "pinned-symbolic", "frame": frame, "plain": str(want)[:300], "got": outs[0][:300]})
    return bad, n_sym_paths, unsupported


def check_decode(limit=None, seed=0):
    import multiprocessing as mp

    lines = collect_lines(limit, seed)
    tmp_in = os.path.join(VERIF, f".selfcheck-{os.getpid()}-in.json")
    tmp_out = os.path.join(VERIF, f".selfcheck-{os.getpid()}-out.json")
    json.dump(lines, open(tmp_in, "w"))
    try:
        subprocess.run([sys.executable, "-c", PLAIN_DECODER, os.path.join(REPO, "src"), tmp_in, tmp_out], check=True, timeout=600)
        plain = json.load(open(tmp_out))
    finally:
        for f in (tmp_in, tmp_out):
            try:
                os.unlink(f)
            except OSError:
                pass
    from checks import common

    common.install()
    import ramses_tx.message  # noqa: F401  (import before forking)

    n = 16
    chunks = [(lines[i::n], plain[i::n]) for i in range(n)]
    with mp.get_context("fork").Pool(n) as pool:
        res = pool.map(decode_worker, chunks)
    bad = [b for r in res for b in r[0]]
    unsupported = [u for r in res for u in r[2]]
    return {"lines": len(lines), "decoded_ok_by_plain": sum(1 for p in plain if p[0] == "ok"), "disagreements": bad[:40], "n_disagreements": len(bad),
            "symbolic_paths": sum(r[1] for r in res), "unsupported": len(unsupported), "unsupported_samples": unsupported[:25]}


def check_regex(n=40, seed=0):
    import z3
    from checks import common

    common.install()
    from ramses_tx.ramses import CODES_SCHEMA
    from ramses_tx.const import COMMAND_REGEX, DEVICE_ID_REGEX
    from . import core, strings

    rnd = random.Random(seed)
    pats = {v[k] for v in CODES_SCHEMA.values() for k in (" I", "RQ", "RP", " W") if k in v}
    pats |= {COMMAND_REGEX.pattern, DEVICE_ID_REGEX.ANY.pattern}
    bad, tested = [], 0
    core.CTX = core.Ctx([])
    for pat in sorted(pats):
        rx = re.compile(pat)
        for _ in range(n):
            L = rnd.choice([2, 2, 4, 6, 6, 8, 10, 12, 16, 22, 44])
            s = "".join(rnd.choice("0123456789ABCDEF" + ("F0" * 4)) for _ in range(L))
            if pat == COMMAND_REGEX.pattern:
                s = "RQ --- 01:145038 18:000730 --:------ 30C9 001 " + s[:2]
                if rnd.random() < 0.5:
                    s = s[: rnd.randrange(len(s))] + rnd.choice("xX: -9") + s[rnd.randrange(len(s)):]
            for kind in ("match", "fullmatch"):
                want = getattr(rx, kind)(s) is not None
                sym = strings.SymStr([z3.IntVal(ord(c)) for c in s])
                try:
                    got = strings.re_match_cond(pat, sym, kind)
                except core.Unsupported as e:
                    bad.append({"pattern": pat, "why": f"unsupported: {e}"})
                    break
                got = bool(got) if isinstance(got, bool) else None
                tested += 1
                if got is not want:
                    bad.append({"pattern": pat, "subject": s, "kind": kind, "re": want, "symx": got})
    core.CTX = None
    return {"patterns": len(pats), "cases": tested, "n_disagreements": len(bad), "disagreements": bad[:20]}


def check_fp(n=3000, seed=0):
    import z3
    from . import values as V

    rnd = random.Random(seed)
    bad = []
    for i in range(n):
        a = rnd.choice([rnd.uniform(-400, 400), rnd.randrange(-40000, 70000) / 100, rnd.randrange(0, 201) / 200, float(rnd.randrange(-5, 5))])
        b = rnd.choice([100.0, 200.0, 10.0, 1000.0, 0.5, 3.0])
        for name, f, g in (
            ("mul", lambda x, y: x * y, lambda x, y: z3.fpMul(V.RNE, x, y)),
            ("div", lambda x, y: x / y, lambda x, y: z3.fpDiv(V.RNE, x, y)),
            ("add", lambda x, y: x + y, lambda x, y: z3.fpAdd(V.RNE, x, y)),
        ):
            want = f(a, b)
            got = z3.simplify(g(z3.FPVal(a, V.FP), z3.FPVal(b, V.FP)))
            gv = V.fp_value(got)
            if gv != want and not (math.isnan(gv) and math.isnan(want)):
                bad.append({"op": name, "a": a, "b": b, "cpython": want, "z3": gv})
        # int() truncation and round() half-even
        x = a * b
        ti = z3.simplify(z3.fpToSBV(V.RTZ, z3.FPVal(x, V.FP), z3.BitVecSort(64))).as_signed_long()
        ri = z3.simplify(z3.fpToSBV(V.RNE, z3.FPVal(x, V.FP), z3.BitVecSort(64))).as_signed_long()
        if ti != int(x):
            bad.append({"op": "int", "x": x, "cpython": int(x), "z3": ti})
        if ri != round(x):
            bad.append({"op": "round", "x": x, "cpython": round(x), "z3": ri})
        # round(x, n): the binary128 model of SymFloat.__round__ against CPython (incl. exact decimal ties)
        nd = rnd.choice([1, 2, 2, 3])
        xs = rnd.choice([a, rnd.randrange(-400000, 700000) / 1000, rnd.randrange(-40000, 70000) / 100 + 0.005, rnd.randrange(0, 1000) / 8])
        rv = V.fp_value(z3.simplify(V.SymFloat(z3.FPVal(xs, V.FP)).__round__(nd).e))
        if rv != round(xs, nd):
            bad.append({"op": f"round(x,{nd})", "x": xs, "cpython": round(xs, nd), "z3": rv})
    return {"cases": n * 6, "n_disagreements": len(bad), "disagreements": bad[:10]}


def check_stubs(n=4000, seed=0):
    import datetime as D
    import struct
    import z3
    from . import core, stubs
    from .values import SymInt

    rnd = random.Random(seed)
    bad = []
    core.CTX = core.Ctx([])
    try:
        for _ in range(n):
            f = (rnd.choice([1, 4, 100, 1900, 2000, 2023, 2024, 2100, 9999, 0, 10000]), rnd.randrange(0, 14), rnd.randrange(0, 33), rnd.randrange(0, 25), rnd.randrange(0, 61), rnd.randrange(0, 61))
            try:
                want = D.datetime(*f)
                w = ("ok", want.isoformat(timespec="seconds"), want.strftime("%Y-%m-%d"), want.strftime("%y-%m-%dT%H:%M:%S"))
            except ValueError:
                w = ("ValueError",)
            try:
                sd = stubs.SymDateTime(*[SymInt(z3.IntVal(x)) for x in f])
                g = ("ok", str(sd.isoformat(timespec="seconds")), str(sd.strftime("%Y-%m-%d")), str(sd.strftime("%y-%m-%dT%H:%M:%S")))
            except ValueError:
                g = ("ValueError",)
            if w != g:
                bad.append({"stub": "datetime", "fields": f, "real": w, "stub_result": g})
        # strptime model (full-width reading) on pinned symbolic digit texts, incl. the %y pivot
        from .strings import mk
        fmt = "%y-%m-%dT%H:%M:%S"
        for _ in range(n // 2):
            f = [rnd.choice([0, 1, 4, 24, 67, 68, 69, 70, 96, 99, rnd.randrange(100)]), rnd.randrange(0, 14), rnd.randrange(0, 33), rnd.randrange(0, 25), rnd.randrange(0, 62), rnd.randrange(0, 63)]
            text = "%02d-%02d-%02dT%02d:%02d:%02d" % tuple(f)
            try:
                want = D.datetime.strptime(text, fmt)
                w = ("ok", want.isoformat())
            except ValueError:
                w = ("ValueError",)
            st = mk([ch if not ch.isdigit() else z3.IntVal(ord(ch)) for ch in text])
            try:
                sd = stubs.sym_strptime(st, fmt)
                g = ("ok", str(sd.isoformat(timespec="seconds")))
            except ValueError:
                g = ("ValueError",)
            if w != g:
                bad.append({"stub": "strptime", "text": text, "real": w, "stub_result": g})
        for _ in range(n // 4):
            vals = (rnd.randrange(0, 300), rnd.randrange(0, 9), rnd.randrange(0, 70000), rnd.randrange(0, 70000))
            fmt = "<xxxxBxxxBxxxHxxHxx"
            try:
                w = ("ok", list(struct.pack(fmt, *vals)))
            except struct.error:
                w = ("error",)
            try:
                r = stubs.SxStruct.pack(fmt, *[SymInt(z3.IntVal(v)) for v in vals])
                g = ("ok", [int(x.__index__()) if isinstance(x, SymInt) else int(x) for x in r])
            except struct.error:
                g = ("error",)
            if w != g:
                bad.append({"stub": "struct.pack", "vals": vals, "real": w, "stub_result": g})
            if w[0] == "ok":
                from .strings import SymBytes

                u = stubs.SxStruct.unpack("<xxxxBxxxBxxxHxxHH", SymBytes(w[1]))
                if tuple(int(x) for x in u) != struct.unpack("<xxxxBxxxBxxxHxxHH", bytes(w[1])):
                    bad.append({"stub": "struct.unpack", "vals": vals})
    finally:
        core.CTX = None
    return {"cases": n + n // 2 + n // 4, "n_disagreements": len(bad), "disagreements": bad[:10]}


def main(tier="quick", argv=()):
    t0 = time.time()
    what = list(argv) or ["decode", "regex", "fp", "stubs"]
    out = {}
    limit = None if tier == "thorough" or "--all" in what else int(os.environ.get("SELFCHECK_LINES", "1500"))
    if "decode" in what:
        out["decode"] = check_decode(limit)
    if "regex" in what:
        out["regex"] = check_regex(40 if tier == "thorough" else 12)
    if "fp" in what:
        out["fp"] = check_fp(3000 if tier == "thorough" else 600)
    if "stubs" in what:
        out["stubs"] = check_stubs(4000 if tier == "thorough" else 1000)
    out["wall_s"] = round(time.time() - t0, 1)
    bad = sum(v.get("n_disagreements", 0) for v in out.values() if isinstance(v, dict))
    out["disagreements_total"] = bad
    os.makedirs(os.path.join(VERIF, "evidence"), exist_ok=True)
    json.dump(out, open(os.path.join(VERIF, "evidence", "selfcheck.json"), "w"), indent=1, default=str)
    for k, v in out.items():
        if isinstance(v, dict):
            print(f"[selfcheck] {k}: " + ", ".join(f"{a}={b}" for a, b in v.items() if not isinstance(b, (list, dict))), file=sys.stderr)
            for d in (v.get("disagreements") or [])[:5]:
                print(f"    DISAGREE {d}", file=sys.stderr)
            for d in (v.get("unsupported_samples") or [])[:8]:
                print(f"    unsupported {d}", file=sys.stderr)
    print(f"[selfcheck] {bad} disagreements, {out['wall_s']}s", file=sys.stderr)
    return 2 if bad else 0
