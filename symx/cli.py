from __future__ import annotations

import re
import sys


def main(argv=None):
    argv = list(sys.argv[1:] if argv is None else argv)
    if not argv:
        print("usage: vcheck <Cxx> [--tier quick|thorough] | replay <file> | selfcheck", file=sys.stderr)
        return 2
    cmd = argv.pop(0)
    tier = "quick"
    if "--tier" in argv:
        i = argv.index("--tier")
        tier = argv[i + 1]
        del argv[i : i + 2]
    if re.fullmatch(r"[Cc]\d{2,3}", cmd):
        from . import report

        try:
            return report.main_check(cmd.upper(), tier, argv)
        except BaseException as e:  # noqa: BLE001  a crash of the driver is a harness error (exit 2), never a verdict
            if isinstance(e, SystemExit):
                raise
            import traceback

            traceback.print_exc()
            print(f"[{cmd.upper()}] HARNESS-ERROR: driver crashed: {type(e).__name__}: {str(e)[:300]}", file=sys.stderr)
            return 2
    if cmd == "replay":
        from . import report

        return report.main_replay(argv[0])
    if cmd == "selfcheck":
        from . import selfcheck

        return selfcheck.main(tier, argv)
    print(f"unknown command {cmd}", file=sys.stderr)
    return 2


if __name__ == "__main__":
    sys.exit(main())
