"""Run a list of queries over worker processes (fork), with a hard per-query timeout."""
from __future__ import annotations

import multiprocessing as mp
import os
import pickle
import time
import traceback
from dataclasses import dataclass, field
from typing import Any, Callable

from . import core


@dataclass
class Query:
    name: str
    fn: Callable[[core.Ctx], Any]
    params: dict = field(default_factory=dict)
    max_paths: int = 20_000
    max_secs: float = 120.0
    mode: str = "int"  # "int" | "bv"
    group: str = ""  # for reporting
    weight: float = 1.0  # scheduling hint: heavier first
    pre: Callable[[], None] | None = None  # run once in the child before exploring
    canary: bool = False  # a deliberately false obligation: must come back violated
    prefix: list | None = None
    solver_timeout_ms: int | None = None
    split_depth: int | None = None  # hand sub-trees below this decision depth to other workers


def _child(q: Query, conn):
    try:
        core.Cfg.mode = q.mode
        if q.solver_timeout_ms:
            core.Cfg.solver_timeout_ms = q.solver_timeout_ms
        if q.pre:
            q.pre()
        res = core.explore(q.fn, q.name, q.params, q.max_paths, q.max_secs, prefix=q.prefix, split_depth=q.split_depth)
    except BaseException as e:  # noqa: BLE001  engine bug
        res = core.QueryResult(name=q.name, params=q.params)
        res.error = f"{type(e).__name__}: {e}\n{traceback.format_exc()[-1500:]}"
    try:
        res.params = {k: (v if isinstance(v, (str, int, float, bool, type(None), list, dict)) else repr(v)) for k, v in res.params.items()}
        for v in res.violations:
            pickle.dumps(v)
        conn.send(res)
    except BaseException as e:  # noqa: BLE001
        r2 = core.QueryResult(name=q.name)
        r2.error = f"result not picklable: {e}"
        conn.send(r2)
    finally:
        conn.close()
        os._exit(0)


def run_queries(queries: list[Query], workers: int | None = None, hard_factor: float = 1.5, progress=None, _retry: bool = True):
    """-> list[QueryResult] in the order of ``queries``."""
    workers = workers or int(os.environ.get("SYMX_WORKERS", "0")) or min(16, os.cpu_count() or 4)
    ctx = mp.get_context("fork")
    order = sorted(range(len(queries)), key=lambda i: -queries[i].weight)
    results: dict[int, core.QueryResult] = {}
    running: dict[int, tuple] = {}
    pos = 0
    while pos < len(order) or running:
        while pos < len(order) and len(running) < workers:
            i = order[pos]
            pos += 1
            pr, pw = ctx.Pipe(duplex=False)
            p = ctx.Process(target=_child, args=(queries[i], pw), daemon=True)
            p.start()
            pw.close()
            running[i] = (p, pr, time.time())
        done = []
        for i, (p, pr, t0) in running.items():
            q = queries[i]
            if pr.poll(0):
                try:
                    results[i] = pr.recv()
                except (EOFError, OSError) as e:
                    r = core.QueryResult(name=q.name, params=q.params)
                    r.error = f"worker died: {e!r}"
                    results[i] = r
                p.join(5)
                done.append(i)
            elif not p.is_alive():
                # the worker may have sent its result and exited between the poll above and this test
                if pr.poll(0.2):
                    try:
                        results[i] = pr.recv()
                    except (EOFError, OSError) as e:
                        r = core.QueryResult(name=q.name, params=q.params)
                        r.error = f"worker died: {e!r}"
                        results[i] = r
                else:
                    r = core.QueryResult(name=q.name, params=q.params)
                    r.error = f"worker exited with {p.exitcode} and no result"
                    results[i] = r
                p.join(5)
                done.append(i)
            elif time.time() - t0 > q.max_secs * hard_factor + 30:
                p.kill()
                p.join(5)
                r = core.QueryResult(name=q.name, params=q.params)
                r.inconclusive.append({"reason": "hard-timeout", "where": f"{q.max_secs * hard_factor + 30:.0f}s"})
                r.wall_s = time.time() - t0
                results[i] = r
                done.append(i)
        for i in done:
            running.pop(i)
            if progress:
                progress(queries[i], results[i])
        if not done:
            time.sleep(0.02)
    out = [results[i] for i in range(len(queries))]
    # a worker that vanished (killed by the OS, a crash inside the solver library) says nothing about the query:
    # run such queries once more before reporting a harness error
    if _retry:
        again = [i for i, r in enumerate(out) if r.error and r.error.startswith(("worker exited", "worker died"))]
        if again:
            rr = run_queries([queries[i] for i in again], workers=workers, hard_factor=hard_factor, progress=None, _retry=False)
            for i, r in zip(again, rr):
                out[i] = r
    # second phase: sub-trees of split queries
    subs, owner = [], []
    for i, (q, r) in enumerate(zip(queries, out)):
        if q.split_depth and r.subprefixes and not r.error:
            for j, pre in enumerate(r.subprefixes):
                sq = Query(name=f"{q.name}#{j}", fn=q.fn, params=q.params, max_paths=q.max_paths, max_secs=q.max_secs, mode=q.mode,
                           group=q.group, weight=q.weight, pre=q.pre, canary=q.canary, prefix=pre, solver_timeout_ms=q.solver_timeout_ms)
                subs.append(sq)
                owner.append(i)
    if subs:
        sres = run_queries(subs, workers=workers, hard_factor=hard_factor, progress=None)
        for i, sr in zip(owner, sres):
            merge(out[i], sr)
        for i in set(owner):
            out[i].subprefixes = []
            if progress:
                progress(queries[i], out[i])
    return out


def merge(a: core.QueryResult, b: core.QueryResult):
    """fold the result of a sub-tree into its parent query"""
    a.paths += b.paths
    a.decisions += b.decisions
    a.sym_paths += b.sym_paths
    a.solver_calls += b.solver_calls
    a.solver_s += b.solver_s
    a.obligations += b.obligations
    a.discharged += b.discharged
    a.sym_obligations += b.sym_obligations
    off = a.paths
    a.violations.extend(b.violations)
    a.inconclusive.extend(b.inconclusive)
    a.exhaustive = a.exhaustive and b.exhaustive and not b.error
    a.outcomes.update(b.outcomes)
    a.labels.update(b.labels)
    if len(a.samples) < 3:
        a.samples.extend(b.samples[: 3 - len(a.samples)])
    a.wall_s = max(a.wall_s, b.wall_s)
    if b.error:
        a.error = (a.error or "") + f" | sub {b.name}: {b.error[:300]}"
