"""Environment stubs: pure-Python models of C-implemented library pieces the code under
test calls with symbolic values.  Each stub is differential-tested against the real
implementation by ``./vcheck selfcheck``."""
from __future__ import annotations

import datetime as _dtmod

import z3

from . import core
from .core import K, Unsupported
from .strings import SymStr, Tainted, mk, cells
from .values import SymInt, sbool, fmt_int_cells

_real_dt = _dtmod.datetime
_real_date = _dtmod.date


def _e(x):
    return x.e if isinstance(x, SymInt) else K(int(x))


def days_in_month_cond(y, m, d):
    """z3 condition: (y, m, d) is a valid proleptic Gregorian date, years 1..9999"""
    leap = z3.And(y % 4 == 0, z3.Or(y % 100 != 0, y % 400 == 0))
    dim = z3.If(
        z3.Or(m == 4, m == 6, m == 9, m == 11),
        K(30),
        z3.If(m == 2, z3.If(leap, K(29), K(28)), K(31)),
    )
    return z3.And(y >= 1, y <= 9999, m >= 1, m <= 12, d >= 1, d <= dim)


class SymDateTime:
    """datetime whose fields may be SymInt (naive, no tz, microsecond = 0)."""

    def __init__(self, year, month, day, hour=0, minute=0, second=0, microsecond=0, _checked=False):
        if microsecond != 0:
            raise Unsupported("symbolic datetime with microseconds")
        self.year, self.month, self.day = year, month, day
        self.hour, self.minute, self.second = hour, minute, second
        self.microsecond = 0
        if not _checked:
            y, m, d, H, M, S = map(_e, (year, month, day, hour, minute, second))
            # python checks year, month, day, then hour, minute, second (all ValueError)
            ok = z3.And(days_in_month_cond(y, m, d), H >= 0, H <= 23, M >= 0, M <= 59, S >= 0, S <= 59)
            if not bool(sbool(ok)):
                raise ValueError("symbolic datetime field out of range")

    def timetuple(self):
        # (tm_year, tm_mon, tm_mday, tm_hour, tm_min, tm_sec, tm_wday, tm_yday, tm_isdst)
        return (self.year, self.month, self.day, self.hour, self.minute, self.second, _Unused("tm_wday"), _Unused("tm_yday"), -1)

    def _f(self, v, w):
        return cells(format(v, f"0{w}d")) if isinstance(v, SymInt) else list(f"{int(v):0{w}d}")

    def isoformat(self, sep="T", timespec="auto"):
        out = self._f(self.year, 4) + ["-"] + self._f(self.month, 2) + ["-"] + self._f(self.day, 2)
        if timespec in ("auto", "seconds"):
            out += [sep] + self._f(self.hour, 2) + [":"] + self._f(self.minute, 2) + [":"] + self._f(self.second, 2)
        elif timespec == "minutes":
            out += [sep] + self._f(self.hour, 2) + [":"] + self._f(self.minute, 2)
        elif timespec == "microseconds":
            out += [sep] + self._f(self.hour, 2) + [":"] + self._f(self.minute, 2) + [":"] + self._f(self.second, 2) + list(".000000")
        else:
            raise Unsupported(f"isoformat(timespec={timespec})")
        return mk(out)

    def strftime(self, fmt):
        out = []
        i = 0
        while i < len(fmt):
            ch = fmt[i]
            if ch != "%":
                out.append(ch)
                i += 1
                continue
            d = fmt[i + 1]
            i += 2
            if d == "Y":
                # glibc does not zero-pad %Y; CPython's strftime on Linux gives e.g. '23' for year 23
                out += self._year_unpadded()
            elif d == "y":
                y = self.year % 100
                out += self._f(y, 2)
            elif d == "m":
                out += self._f(self.month, 2)
            elif d == "d":
                out += self._f(self.day, 2)
            elif d == "H":
                out += self._f(self.hour, 2)
            elif d == "M":
                out += self._f(self.minute, 2)
            elif d == "S":
                out += self._f(self.second, 2)
            elif d == "%":
                out.append("%")
            else:
                raise Unsupported(f"strftime %{d}")
        return mk(out)

    def _year_unpadded(self):
        y = self.year
        if isinstance(y, SymInt):
            return cells(format(y, "d"))
        return list(str(int(y)))

    def date(self):
        return self

    def replace(self, **kw):
        f = dict(year=self.year, month=self.month, day=self.day, hour=self.hour, minute=self.minute, second=self.second)
        f.update(kw)
        return SymDateTime(**f)

    def __sx_concretize__(self, model):
        from .values import concretize

        return [concretize(x, model) for x in (self.year, self.month, self.day, self.hour, self.minute, self.second)]

    def __repr__(self):
        return "SymDateTime(...)"


class _Unused:
    """placeholder for struct_time fields the code never reads"""

    def __init__(self, name):
        self.name = name

    def _bad(self, *a, **k):
        raise Unsupported(f"use of struct_time.{self.name} of a symbolic datetime")

    __int__ = __index__ = __add__ = __radd__ = __lt__ = __gt__ = __eq__ = __format__ = __str__ = _bad


def _any_sym(args, kwargs):
    return any(isinstance(x, SymInt) for x in args) or any(isinstance(x, SymInt) for x in kwargs.values())


class _DtMeta(type):
    def __instancecheck__(cls, x):
        return isinstance(x, (_real_dt, SymDateTime))

    def __subclasscheck__(cls, c):
        return issubclass(c, _real_dt)

    def __call__(cls, *a, **k):
        if _any_sym(a, k):
            return SymDateTime(*a, **k)
        return _real_dt(*a, **k)


class SxDateTime(metaclass=_DtMeta):
    """drop-in for ``datetime.datetime`` in an instrumented module's globals"""

    min = _real_dt.min
    max = _real_dt.max
    now = _real_dt.now
    utcnow = _real_dt.utcnow
    fromtimestamp = _real_dt.fromtimestamp
    combine = _real_dt.combine

    @staticmethod
    def fromisoformat(s):
        if isinstance(s, (SymStr, Tainted)):
            raise Unsupported("datetime.fromisoformat(symbolic str)")
        return _real_dt.fromisoformat(s)

    @staticmethod
    def strptime(s, fmt):
        if isinstance(s, Tainted):
            raise Unsupported("datetime.strptime(tainted str)")
        if isinstance(s, SymStr):
            return sym_strptime(s, fmt)
        return _real_dt.strptime(s, fmt)


def sym_strptime(s, fmt):
    """``datetime.strptime`` for a fixed-length symbolic text and a format made of literals and the
    directives %Y %y %m %d %H %M %S.  Only the full-width reading is modelled (every numeric field at
    its maximum width, which is the only reading when ``len(s)`` equals the full-width length); a text of
    another length, or a non-digit in a numeric field, is reported as unsupported/ValueError the way
    ``_strptime`` would: wrong literal -> ValueError, field out of range -> ValueError."""
    widths = {"Y": 4, "y": 2, "m": 2, "d": 2, "H": 2, "M": 2, "S": 2}
    plan, i = [], 0
    while i < len(fmt):
        if fmt[i] == "%":
            d = fmt[i + 1]
            if d not in widths:
                raise Unsupported(f"strptime %{d} on a symbolic str")
            plan.append((d, widths[d]))
            i += 2
        else:
            plan.append((fmt[i], 0))
            i += 1
    full = sum(w or 1 for _, w in plan)
    cs = s.chars
    if len(cs) != full:
        raise Unsupported(f"strptime: symbolic text of length {len(cs)}, only the full-width reading ({full}) is modelled")
    pos, vals = 0, {}
    for d, w in plan:
        if w == 0:
            c = cs[pos]
            ok = (c == d) if isinstance(c, str) else sbool(c == ord(d))
            if not bool(ok):
                raise ValueError("time data does not match format")
            pos += 1
            continue
        e = K(0)
        for c in cs[pos:pos + w]:
            if isinstance(c, str):
                if not ("0" <= c <= "9"):
                    raise Unsupported("strptime: non-digit in a numeric field (1-digit/blank-padded readings not modelled)")
                e = e * 10 + (ord(c) - 48)
            else:
                if not bool(sbool(z3.And(c >= 48, c <= 57))):
                    raise Unsupported("strptime: non-digit in a numeric field (1-digit/blank-padded readings not modelled)")
                e = e * 10 + (c - 48)
        vals[d] = SymInt(e)
        pos += w
    # the directive regexes of _strptime, full-width alternatives only
    rng = {"m": (1, 12), "d": (1, 31), "H": (0, 23), "M": (0, 59), "S": (0, 61)}
    for d, (lo, hi) in rng.items():
        if d in vals and not bool(sbool(z3.And(vals[d].e >= lo, vals[d].e <= hi))):
            raise ValueError("time data does not match format")
    if "y" in vals:
        y = vals["y"]
        year = SymInt(z3.If(y.e <= 68, y.e + 2000, y.e + 1900))
    else:
        year = vals.get("Y", 1900)
    return SymDateTime(year, vals.get("m", 1), vals.get("d", 1), vals.get("H", 0), vals.get("M", 0), vals.get("S", 0))


class _DateMeta(type):
    def __instancecheck__(cls, x):
        return isinstance(x, (_real_date, SymDateTime))

    def __call__(cls, *a, **k):
        if _any_sym(a, k):
            return SymDateTime(*a, **k)
        return _real_date(*a, **k)


class SxDate(metaclass=_DateMeta):
    today = _real_date.today
    fromisoformat = _real_date.fromisoformat


# ------------------------------------------------------------------------------------------
# struct (little-endian, x/B/H only) - used by ramses_rf.system.schedule

import struct as _real_struct


class SxStruct:
    """struct.pack/unpack for the formats the code base uses: byte order < or >, codes x B b H h"""

    error = _real_struct.error
    calcsize = staticmethod(_real_struct.calcsize)
    Struct = _real_struct.Struct

    @staticmethod
    def _parse(fmt):
        if not fmt or fmt[0] not in "<>":
            raise Unsupported(f"struct format {fmt!r}")
        for ch in fmt[1:]:
            if ch not in "xBbHh":
                raise Unsupported(f"struct format {fmt!r}")
        return fmt[0] == ">", list(fmt[1:])

    @staticmethod
    def pack(fmt, *vals):
        from .strings import SymBytes

        if not any(isinstance(v, SymInt) for v in vals):
            return _real_struct.pack(fmt, *vals)
        big, items = SxStruct._parse(fmt)
        out, it = [], iter(vals)
        for ch in items:
            if ch == "x":
                out.append(0)
                continue
            v = next(it)
            lo, hi = {"B": (0, 255), "b": (-128, 127), "H": (0, 65535), "h": (-32768, 32767)}[ch]
            if isinstance(v, SymInt):
                if not bool(sbool(z3.And(v.e >= lo, v.e <= hi))):
                    raise _real_struct.error(f"'{ch}' format requires {lo} <= number <= {hi}")
                if lo < 0:  # two's complement
                    v = SymInt(z3.If(v.e < 0, v.e + (hi - lo + 1), v.e))
                if ch in "Bb":
                    out.append(v)
                else:
                    bs = [v & 0xFF, (v >> 8) & 0xFF]
                    out += bs[::-1] if big else bs
            else:
                out += list(_real_struct.pack(fmt[0] + ch, v))
        return SymBytes(out)

    @staticmethod
    def unpack(fmt, data):
        from .strings import SymBytes

        if not isinstance(data, SymBytes) or not any(isinstance(b, SymInt) for b in data):
            return _real_struct.unpack(fmt, bytes(data) if isinstance(data, SymBytes) else data)
        big, items = SxStruct._parse(fmt)
        if len(data) != _real_struct.calcsize(fmt):
            raise _real_struct.error(f"unpack requires a buffer of {_real_struct.calcsize(fmt)} bytes")
        out, i = [], 0
        for ch in items:
            if ch == "x":
                i += 1
                continue
            if ch in "Bb":
                v = data[i]
                i += 1
                top = 256
            else:
                a, b = data[i], data[i + 1]
                v = (a * 256 + b) if big else (a + b * 256)
                i += 2
                top = 65536
            if ch in "bh":
                v = SymInt(z3.If(_e(v) >= top // 2, _e(v) - top, _e(v))) if isinstance(v, SymInt) else (v - top if v >= top // 2 else v)
            out.append(v)
        return tuple(out)


# ------------------------------------------------------------------------------------------
# timedelta / instants with a symbolic (real-valued) number of seconds

_real_td = _dtmod.timedelta


def _secs(x):
    """-> SymReal seconds of a timedelta-like / number"""
    from .values import SymReal

    if isinstance(x, SymTimeDelta):
        return x.secs
    if isinstance(x, _real_td):
        import fractions

        return SymReal.const(fractions.Fraction(x.days * 86400 + x.seconds) + fractions.Fraction(x.microseconds, 10**6))
    return None


class SymTimeDelta:
    def __init__(self, secs):
        from .values import SymReal, SymInt

        if isinstance(secs, SymInt):
            secs = secs.as_real()
        elif not isinstance(secs, SymReal):
            secs = SymReal.const(secs)
        self.secs = secs

    def total_seconds(self):
        return self.secs

    # the normalised fields of datetime.timedelta: days (floor), 0 <= seconds < 86400, 0 <= microseconds < 10^6
    @property
    def days(self):
        return (self.secs / 86400).floor()

    @property
    def seconds(self):
        return self.secs.floor() - self.days * 86400

    @property
    def microseconds(self):
        return ((self.secs - self.secs.floor().as_real()) * 1_000_000).floor()

    def __add__(self, o):
        if isinstance(o, (_real_dt, SymInstant)):
            return SymInstant.of(o) + self
        s = _secs(o)
        return NotImplemented if s is None else SymTimeDelta(self.secs + s)

    __radd__ = __add__

    def __sub__(self, o):
        s = _secs(o)
        return NotImplemented if s is None else SymTimeDelta(self.secs - s)

    def __rsub__(self, o):
        if isinstance(o, (_real_dt, SymInstant)):
            return SymInstant.of(o) - self
        s = _secs(o)
        return NotImplemented if s is None else SymTimeDelta(s - self.secs)

    def __neg__(self):
        return SymTimeDelta(-self.secs)

    def __mul__(self, k):
        from .values import NUMERIC

        if isinstance(k, (int, float, *NUMERIC)):
            return SymTimeDelta(self.secs * k)
        return NotImplemented

    __rmul__ = __mul__

    def __truediv__(self, o):
        from .values import NUMERIC

        s = _secs(o)
        if s is not None:
            return self.secs / s  # ZeroDivisionError when the divisor can be (is) zero: forks
        if isinstance(o, (int, float, *NUMERIC)):
            return SymTimeDelta(self.secs / o)
        return NotImplemented

    def __rtruediv__(self, o):
        s = _secs(o)
        return NotImplemented if s is None else s / self.secs

    def _cmp(self, o, op):
        s = _secs(o)
        if s is None:
            if op in ("__eq__", "__ne__"):
                return op == "__ne__"
            return NotImplemented
        return getattr(self.secs, op)(s)

    def __lt__(self, o):
        return self._cmp(o, "__lt__")

    def __le__(self, o):
        return self._cmp(o, "__le__")

    def __gt__(self, o):
        return self._cmp(o, "__gt__")

    def __ge__(self, o):
        return self._cmp(o, "__ge__")

    def __eq__(self, o):
        return self._cmp(o, "__eq__")

    def __ne__(self, o):
        return self._cmp(o, "__ne__")

    __hash__ = None  # type: ignore[assignment]

    def __bool__(self):
        return bool(self.secs != 0)

    def __sx_concretize__(self, model):
        from .values import concretize

        return {"timedelta_s": concretize(self.secs, model)}

    def __repr__(self):
        return "SymTimeDelta(...)"

    def __format__(self, spec):
        from .strings import tainted

        return tainted("<timedelta>")

    __str__ = __repr__


class SymInstant:
    """a concrete datetime plus a symbolic number of seconds"""

    def __init__(self, base, off):
        self.base, self.off = base, off
        # datetime arithmetic raises OverflowError outside year 1..9999 (may fork)
        import fractions

        from .values import SymReal

        if isinstance(off, SymReal) and isinstance(base, _real_dt):
            b = base.replace(tzinfo=None)
            lo = fractions.Fraction((_real_dt.min - b).days * 86400 + (_real_dt.min - b).seconds)
            hi = fractions.Fraction((_real_dt.max - b).days * 86400 + (_real_dt.max - b).seconds + 1)
            if bool(off < lo) or bool(off >= hi):
                raise OverflowError("date value out of range")

    @staticmethod
    def of(x):
        from .values import SymReal

        return x if isinstance(x, SymInstant) else SymInstant(x, SymReal.const(0))

    def __add__(self, o):
        s = _secs(o)
        return NotImplemented if s is None else SymInstant(self.base, self.off + s)

    __radd__ = __add__

    def __sub__(self, o):
        if isinstance(o, SymInstant):
            return SymTimeDelta(self.off - o.off) + (self.base - o.base)
        if isinstance(o, _real_dt):
            return SymTimeDelta(self.off) + (self.base - o)
        s = _secs(o)
        return NotImplemented if s is None else SymInstant(self.base, self.off - s)

    def __rsub__(self, o):
        if isinstance(o, _real_dt):
            return SymTimeDelta(-self.off) + (o - self.base)
        return NotImplemented

    def _cmp(self, o, op):
        if isinstance(o, (_real_dt, SymInstant)):
            d = self - o
            from .values import SymReal

            return getattr(d.secs, op)(0)
        if op in ("__eq__", "__ne__"):
            return op == "__ne__"
        return NotImplemented

    def __lt__(self, o):
        return self._cmp(o, "__lt__")

    def __le__(self, o):
        return self._cmp(o, "__le__")

    def __gt__(self, o):
        return self._cmp(o, "__gt__")

    def __ge__(self, o):
        return self._cmp(o, "__ge__")

    def __eq__(self, o):
        return self._cmp(o, "__eq__")

    def __ne__(self, o):
        return self._cmp(o, "__ne__")

    __hash__ = None  # type: ignore[assignment]

    def strftime(self, fmt):
        from .strings import tainted

        return tainted("<instant>")

    def isoformat(self, *a, **k):
        from .strings import tainted

        return tainted("<instant>")

    def date(self):
        raise Unsupported("date() of a symbolic instant")

    def __sx_concretize__(self, model):
        from .values import concretize

        return {"base": self.base.isoformat(), "plus_s": concretize(self.off, model)}


def _sym_num(x):
    from .values import NUMERIC

    return isinstance(x, NUMERIC)


class _TdMeta(type):
    def __instancecheck__(cls, x):
        return isinstance(x, (_real_td, SymTimeDelta))

    def __call__(cls, *a, **k):
        if any(_sym_num(x) for x in a) or any(_sym_num(x) for x in k.values()):
            names = ["days", "seconds", "microseconds", "milliseconds", "minutes", "hours", "weeks"]
            kw = dict(zip(names, a))
            kw.update(k)
            scale = {"days": 86400, "seconds": 1, "microseconds": 1e-6, "milliseconds": 1e-3, "minutes": 60, "hours": 3600, "weeks": 604800}
            total = None
            for n, v in kw.items():
                t = v * scale[n]
                total = t if total is None else total + t
            lim = 86400 * 1_000_000_000
            if _sym_num(total) and (bool(total >= lim) or bool(total <= -lim)):
                raise OverflowError("days; must have magnitude <= 999999999")
            return SymTimeDelta(total)
        return _real_td(*a, **k)


class SxTimeDelta(metaclass=_TdMeta):
    min, max, resolution = _real_td.min, _real_td.max, _real_td.resolution


# datetime class-level calls with an instance argument (e.g. dt.strftime(obj, fmt))
SxDateTime.strftime = staticmethod(lambda obj, fmt: obj.strftime(fmt))
SxDateTime.isoformat = staticmethod(lambda obj, *a, **k: obj.isoformat(*a, **k))
SxDateTime.timestamp = staticmethod(lambda obj: obj.timestamp())
SxDateTime.date = staticmethod(lambda obj: obj.date())
_DtMeta.__instancecheck__ = lambda cls, x: isinstance(x, (_real_dt, SymDateTime, SymInstant))
