"""Environment stubs: pure-Python models of C-implemented library pieces the code under
test calls with symbolic values.  Each stub is differential-tested against the real
implementation by ``./vcheck selfcheck``."""
from __future__ import annotations

import datetime as _dtmod

import z3

from . import core
from .core import K, Unsupported
from .strings import SymStr, Tainted, mk, cells
from .values import SymInt, sbool, fmt_int_cells

_real_dt = _dtmod.datetime
_real_date = _dtmod.date


def _e(x):
    return x.e if isinstance(x, SymInt) else K(int(x))


def days_in_month_cond(y, m, d):
    """z3 condition: (y, m, d) is a valid proleptic Gregorian date, years 1..9999"""
    leap = z3.And(y % 4 == 0, z3.Or(y % 100 != 0, y % 400 == 0))
    dim = z3.If(
        z3.Or(m == 4, m == 6, m == 9, m == 11),
        K(30),
        z3.If(m == 2, z3.If(leap, K(29), K(28)), K(31)),
    )
    return z3.And(y >= 1, y <= 9999, m >= 1, m <= 12, d >= 1, d <= dim)


class SymDateTime:
    """datetime whose fields may be SymInt (naive, no tz, microsecond = 0)."""

    def __init__(self, year, month, day, hour=0, minute=0, second=0, microsecond=0, _checked=False):
        if microsecond != 0:
            raise Unsupported("symbolic datetime with microseconds")
        self.year, self.month, self.day = year, month, day
        self.hour, self.minute, self.second = hour, minute, second
        self.microsecond = 0
        if not _checked:
            y, m, d, H, M, S = map(_e, (year, month, day, hour, minute, second))
            # python checks year, month, day, then hour, minute, second (all ValueError)
            ok = z3.And(days_in_month_cond(y, m, d), H >= 0, H <= 23, M >= 0, M <= 59, S >= 0, S <= 59)
            if not bool(sbool(ok)):
                raise ValueError("symbolic datetime field out of range")

    def timetuple(self):
        # (tm_year, tm_mon, tm_mday, tm_hour, tm_min, tm_sec, tm_wday, tm_yday, tm_isdst)
        return (self.year, self.month, self.day, self.hour, self.minute, self.second, _Unused("tm_wday"), _Unused("tm_yday"), -1)

    def _f(self, v, w):
        return cells(format(v, f"0{w}d")) if isinstance(v, SymInt) else list(f"{int(v):0{w}d}")

    def isoformat(self, sep="T", timespec="auto"):
        out = self._f(self.year, 4) + ["-"] + self._f(self.month, 2) + ["-"] + self._f(self.day, 2)
        if timespec in ("auto", "seconds"):
            out += [sep] + self._f(self.hour, 2) + [":"] + self._f(self.minute, 2) + [":"] + self._f(self.second, 2)
        elif timespec == "minutes":
            out += [sep] + self._f(self.hour, 2) + [":"] + self._f(self.minute, 2)
        elif timespec == "microseconds":
            out += [sep] + self._f(self.hour, 2) + [":"] + self._f(self.minute, 2) + [":"] + self._f(self.second, 2) + list(".000000")
        else:
            raise Unsupported(f"isoformat(timespec={timespec})")
        return mk(out)

    def strftime(self, fmt):
        out = []
        i = 0
        while i < len(fmt):
            ch = fmt[i]
            if ch != "%":
                out.append(ch)
                i += 1
                continue
            d = fmt[i + 1]
            i += 2
            if d == "Y":
                # glibc does not zero-pad %Y; CPython's strftime on Linux gives e.g. '23' for year 23
                out += self._year_unpadded()
            elif d == "y":
                y = self.year % 100
                out += self._f(y, 2)
            elif d == "m":
                out += self._f(self.month, 2)
            elif d == "d":
                out += self._f(self.day, 2)
            elif d == "H":
                out += self._f(self.hour, 2)
            elif d == "M":
                out += self._f(self.minute, 2)
            elif d == "S":
                out += self._f(self.second, 2)
            elif d == "%":
                out.append("%")
            else:
                raise Unsupported(f"strftime %{d}")
        return mk(out)

    def _year_unpadded(self):
        y = self.year
        if isinstance(y, SymInt):
            return cells(format(y, "d"))
        return list(str(int(y)))

    def date(self):
        return self

    def replace(self, **kw):
        f = dict(year=self.year, month=self.month, day=self.day, hour=self.hour, minute=self.minute, second=self.second)
        f.update(kw)
        return SymDateTime(**f)

    def __sx_concretize__(self, model):
        from .values import concretize

        return [concretize(x, model) for x in (self.year, self.month, self.day, self.hour, self.minute, self.second)]

    def __repr__(self):
        return "SymDateTime(...)"


class _Unused:
    """placeholder for struct_time fields the code never reads"""

    def __init__(self, name):
        self.name = name

    def _bad(self, *a, **k):
        raise Unsupported(f"use of struct_time.{self.name} of a symbolic datetime")

    __int__ = __index__ = __add__ = __radd__ = __lt__ = __gt__ = __eq__ = __format__ = __str__ = _bad


def _any_sym(args, kwargs):
    return any(isinstance(x, SymInt) for x in args) or any(isinstance(x, SymInt) for x in kwargs.values())


class _DtMeta(type):
    def __instancecheck__(cls, x):
        return isinstance(x, (_real_dt, SymDateTime))

    def __subclasscheck__(cls, c):
        return issubclass(c, _real_dt)

    def __call__(cls, *a, **k):
        if _any_sym(a, k):
            return SymDateTime(*a, **k)
        return _real_dt(*a, **k)


class SxDateTime(metaclass=_DtMeta):
    """drop-in for ``datetime.datetime`` in an instrumented module's globals"""

    min = _real_dt.min
    max = _real_dt.max
    now = _real_dt.now
    utcnow = _real_dt.utcnow
    fromtimestamp = _real_dt.fromtimestamp
    combine = _real_dt.combine

    @staticmethod
    def fromisoformat(s):
        if isinstance(s, (SymStr, Tainted)):
            raise Unsupported("datetime.fromisoformat(symbolic str)")
        return _real_dt.fromisoformat(s)

    @staticmethod
    def strptime(s, fmt):
        if isinstance(s, (SymStr, Tainted)):
            raise Unsupported("datetime.strptime(symbolic str)")
        return _real_dt.strptime(s, fmt)


class _DateMeta(type):
    def __instancecheck__(cls, x):
        return isinstance(x, (_real_date, SymDateTime))

    def __call__(cls, *a, **k):
        if _any_sym(a, k):
            return SymDateTime(*a, **k)
        return _real_date(*a, **k)


class SxDate(metaclass=_DateMeta):
    today = _real_date.today
    fromisoformat = _real_date.fromisoformat


# ------------------------------------------------------------------------------------------
# struct (little-endian, x/B/H only) - used by ramses_rf.system.schedule

import struct as _real_struct


class SxStruct:
    error = _real_struct.error
    calcsize = staticmethod(_real_struct.calcsize)

    @staticmethod
    def _parse(fmt):
        if not fmt.startswith("<"):
            raise Unsupported(f"struct format {fmt!r}")
        out = []
        for ch in fmt[1:]:
            if ch not in "xBH":
                raise Unsupported(f"struct format {fmt!r}")
            out.append(ch)
        return out

    @staticmethod
    def pack(fmt, *vals):
        from .strings import SymBytes

        if not any(isinstance(v, SymInt) for v in vals):
            return _real_struct.pack(fmt, *vals)
        items = SxStruct._parse(fmt)
        out, it = [], iter(vals)
        for ch in items:
            if ch == "x":
                out.append(0)
                continue
            v = next(it)
            top = 255 if ch == "B" else 65535
            if isinstance(v, SymInt):
                if not bool(sbool(z3.And(v.e >= 0, v.e <= top))):
                    raise _real_struct.error(f"'{ch}' format requires 0 <= number <= {top}")
                if ch == "B":
                    out.append(v)
                else:
                    out += [v & 0xFF, (v >> 8) & 0xFF]
            else:
                out += list(_real_struct.pack("<" + ch, v))
        return SymBytes(out)

    @staticmethod
    def unpack(fmt, data):
        from .strings import SymBytes

        if not isinstance(data, SymBytes):
            return _real_struct.unpack(fmt, data)
        items = SxStruct._parse(fmt)
        if len(data) != _real_struct.calcsize(fmt):
            raise _real_struct.error(f"unpack requires a buffer of {_real_struct.calcsize(fmt)} bytes")
        out, i = [], 0
        for ch in items:
            if ch == "x":
                i += 1
            elif ch == "B":
                out.append(data[i])
                i += 1
            else:
                lo, hi = data[i], data[i + 1]
                out.append(lo + hi * 256)
                i += 2
        return tuple(out)
