"""Import-time instrumentation: ramses_tx / ramses_rf are compiled from the *current source*
under SYMX_SRC_ROOT (default /repo/src) after an AST pass that routes the few syntactic
forms CPython evaluates in C (f-strings, ``in``, ``==`` with str-enums, ``.join``,
regex ``.match``, ``d[k]``/``d.get(k)``, set displays, ``%``) through symbolic-aware
helpers.  On concrete values every helper falls through to the ordinary operation."""
from __future__ import annotations

import ast
import functools
import hashlib
import importlib.machinery
import os
import sys

import z3

from . import strings as S
from . import values as V
from . import core
from .core import Unsupported

SRC_ROOT = os.environ.get("SYMX_SRC_ROOT", "/repo/src")
PREFIXES = ("ramses_tx", "ramses_rf")
RT_NAME = "_sx_rt_"
LOADED: dict[str, str] = {}  # module -> sha256 of the source that was compiled


class SymSet:
    """``{a, b} & {...}`` where a/b may be symbolic: elements guarded by conditions."""

    def __init__(self, items):
        self.items = list(items)  # [(elem, cond z3|True)]

    @staticmethod
    def make(elts):
        if not any(isinstance(e, (S.SymStr, V.SymInt)) for e in elts):
            return set(elts)
        return SymSet([(e, True) for e in elts])

    def _isect(self, other):
        out = []
        for e, c in self.items:
            r = S._contains(other, e) if not isinstance(other, SymSet) else other.__sx_contains__(e)
            cond = V.s_and(c, r)
            if cond is not False:
                out.append((e, cond))
        return SymSet(out)

    def __and__(self, other):
        if isinstance(other, (set, frozenset, SymSet, tuple, list, dict)):
            return self._isect(other)
        return NotImplemented

    __rand__ = __and__

    def __sx_contains__(self, x):
        alts = []
        for e, c in self.items:
            r = S.sx_eq(e, x)
            alts.append(V.s_and(c, r))
        return V.s_or(*alts) if alts else False

    def __contains__(self, x):
        return bool(self.__sx_contains__(x))

    def __bool__(self):
        return bool(V.s_or(*[c for _, c in self.items])) if self.items else False

    def __len__(self):
        raise Unsupported("len() of a symbolic set")

    def __iter__(self):
        raise Unsupported("iteration over a symbolic set")

    def __or__(self, other):
        raise Unsupported("| on a symbolic set")


class SymKeyDict(dict):
    """dict whose keys may be symbolic numbers: an association list with symbolic lookup.
    Insertion keeps keys pairwise distinct (forks only where equality is undetermined)."""

    def __init__(self, pairs=()):
        super().__init__()
        self.pairs: list = []
        for k, v in pairs:
            self[k] = v

    @staticmethod
    def _keq(a, b):
        r = S.sx_eq(a, b)
        return r is True or (r is not False and bool(r))

    def __setitem__(self, k, v):
        for i, (ek, _) in enumerate(self.pairs):
            if self._keq(ek, k):
                self.pairs[i] = (ek, v)
                return
        self.pairs.append((k, v))

    def __sx_getitem__(self, k):
        for ek, ev in self.pairs:
            if self._keq(ek, k):
                return ev
        raise KeyError(k)

    __getitem__ = __sx_getitem__

    def __sx_contains__(self, k):
        return V.s_or(*[S.sx_eq(ek, k) for ek, _ in self.pairs]) if self.pairs else False

    def __contains__(self, k):
        return bool(self.__sx_contains__(k))

    def get(self, k, d=None):
        try:
            return self.__sx_getitem__(k)
        except KeyError:
            return d

    def __delitem__(self, k):
        for i, (ek, _) in enumerate(self.pairs):
            if self._keq(ek, k):
                del self.pairs[i]
                return
        raise KeyError(k)

    def pop(self, k, *d):
        try:
            v = self.__sx_getitem__(k)
        except KeyError:
            if d:
                return d[0]
            raise
        del self[k]
        return v

    def keys(self):
        return [k for k, _ in self.pairs]

    def values(self):
        return [v for _, v in self.pairs]

    def items(self):
        return list(self.pairs)

    def __iter__(self):
        return iter(self.keys())

    def __len__(self):
        return len(self.pairs)

    def __bool__(self):
        return bool(self.pairs)

    def update(self, other=(), **kw):
        for k, v in (other.items() if hasattr(other, "items") else other):
            self[k] = v
        for k, v in kw.items():
            self[k] = v

    def __or__(self, other):
        r = SymKeyDict(self.pairs)
        r.update(other)
        return r

    def __ror__(self, other):
        r = SymKeyDict(other.items())
        r.update(self)
        return r

    def __ior__(self, other):
        self.update(other)
        return self

    def copy(self):
        return SymKeyDict(self.pairs)

    def __eq__(self, other):
        raise Unsupported("== on a dict with symbolic keys")

    def __repr__(self):
        return "SymKeyDict(%d)" % len(self.pairs)

    def __sx_concretize__(self, model):
        return [[V.concretize(k, model), V.concretize(v, model)] for k, v in self.pairs]


def _symkey(k):
    return isinstance(k, (V.SymInt, V.SymReal, V.SymFloat))


def mkdict(pairs):
    """dict display / dict comprehension: [(key, value) | (None, mapping-to-unpack)]"""
    pairs = list(pairs)
    flat = []
    for k, v in pairs:
        if k is _UNPACK:
            flat.extend(v.items() if hasattr(v, "items") else [(kk, v[kk]) for kk in v.keys()])
        else:
            flat.append((k, v))
    if any(_symkey(k) for k, _ in flat):
        return SymKeyDict(flat)
    return dict(flat)


_UNPACK = object()


def mkordered(arg=()):
    return arg if isinstance(arg, SymKeyDict) else None


class RT:
    """Namespace injected into every instrumented module as ``_sx_rt_``."""

    fstr = staticmethod(S.sx_fstr)
    contains = staticmethod(S.sx_contains)
    eq = staticmethod(S.sx_eq)
    join = staticmethod(S.sx_join)
    format = staticmethod(S.sx_format)
    re_call = staticmethod(S.sx_re_call)
    get = staticmethod(S.sx_get)
    getitem = staticmethod(S.sx_getitem)
    mod = staticmethod(S.sx_mod)
    mkset = staticmethod(SymSet.make)
    mkdict = staticmethod(mkdict)
    UNPACK = _UNPACK


class Rewriter(ast.NodeTransformer):
    def _rt(self, name):
        return ast.Attribute(ast.Name(RT_NAME, ast.Load()), name, ast.Load())

    def _call(self, node, name, args):
        return ast.copy_location(ast.Call(self._rt(name), args, []), node)

    def visit_JoinedStr(self, node):
        self.generic_visit(node)
        parts = []
        for v in node.values:
            if isinstance(v, ast.Constant):
                parts.append(v)
            else:
                spec = v.format_spec if v.format_spec is not None else ast.Constant("")
                parts.append(ast.Tuple([v.value, ast.Constant(v.conversion), spec], ast.Load()))
        return self._call(node, "fstr", [ast.List(parts, ast.Load())])

    def visit_Compare(self, node):
        self.generic_visit(node)
        if len(node.ops) == 1:
            op = node.ops[0]
            if isinstance(op, (ast.In, ast.NotIn)):
                return self._call(
                    node, "contains", [node.comparators[0], node.left, ast.Constant(isinstance(op, ast.NotIn))]
                )
            if isinstance(op, (ast.Eq, ast.NotEq)):
                return self._call(node, "eq", [node.left, node.comparators[0], ast.Constant(isinstance(op, ast.NotEq))])
        return node

    def visit_Call(self, node):
        self.generic_visit(node)
        f = node.func
        if isinstance(f, ast.Attribute) and f.attr == "format" and isinstance(f.value, (ast.Constant, ast.Name, ast.Attribute)) and all(k.arg is not None for k in node.keywords):
            # fmt.format(...) incl. *args: route through the symbolic-aware formatter
            args = ast.List([a for a in node.args], ast.Load())
            return self._call(node, "format", [f.value, args, ast.Dict([ast.Constant(k.arg) for k in node.keywords], [k.value for k in node.keywords])])
        if isinstance(f, ast.Attribute) and not any(isinstance(a, ast.Starred) for a in node.args):
            kw_ok = all(k.arg is not None for k in node.keywords)
            if f.attr == "join" and len(node.args) == 1 and not node.keywords:
                return self._call(node, "join", [f.value, node.args[0]])
            if f.attr in ("match", "fullmatch", "search", "sub", "subn", "findall", "finditer") and kw_ok:
                return self._call(
                    node,
                    "re_call",
                    [
                        ast.Constant(f.attr),
                        f.value,
                        ast.Tuple(node.args, ast.Load()),
                        ast.Dict([ast.Constant(k.arg) for k in node.keywords], [k.value for k in node.keywords]),
                    ],
                )
            if f.attr == "get" and kw_ok:
                return self._call(
                    node,
                    "get",
                    [
                        f.value,
                        ast.Tuple(node.args, ast.Load()),
                        ast.Dict([ast.Constant(k.arg) for k in node.keywords], [k.value for k in node.keywords]),
                    ],
                )
        return node

    def visit_Subscript(self, node):
        self.generic_visit(node)
        if isinstance(node.ctx, ast.Load) and not isinstance(node.slice, ast.Slice):
            if isinstance(node.slice, ast.Tuple) and any(isinstance(e, ast.Slice) for e in node.slice.elts):
                return node
            return self._call(node, "getitem", [node.value, node.slice])
        return node

    def visit_BinOp(self, node):
        self.generic_visit(node)
        if isinstance(node.op, ast.Mod):
            return self._call(node, "mod", [node.left, node.right])
        return node

    def visit_Set(self, node):
        self.generic_visit(node)
        if any(isinstance(e, ast.Starred) for e in node.elts):
            return node
        if all(isinstance(e, ast.Constant) for e in node.elts):
            return node
        return self._call(node, "mkset", [ast.List(node.elts, ast.Load())])

    def visit_Dict(self, node):
        self.generic_visit(node)
        if all(isinstance(k, ast.Constant) for k in node.keys if k is not None) and all(k is not None for k in node.keys):
            return node
        pairs = [
            ast.Tuple([k if k is not None else self._rt("UNPACK"), v], ast.Load()) for k, v in zip(node.keys, node.values)
        ]
        return self._call(node, "mkdict", [ast.List(pairs, ast.Load())])

    def visit_DictComp(self, node):
        self.generic_visit(node)
        gen = ast.GeneratorExp(ast.Tuple([node.key, node.value], ast.Load()), node.generators)
        return self._call(node, "mkdict", [gen])

    # annotations are never evaluated (from __future__ import annotations everywhere), but
    # keep them untouched anyway
    def visit_AnnAssign(self, node):
        if node.value is not None:
            node.value = self.visit(node.value)
        node.target = self.visit(node.target) if not isinstance(node.target, ast.Name) else node.target
        return node

    def visit_arg(self, node):
        return node

    def visit_FunctionDef(self, node):
        node.body = [self.visit(s) for s in node.body]
        node.decorator_list = [self.visit(d) for d in node.decorator_list]
        node.args.defaults = [self.visit(d) for d in node.args.defaults]
        node.args.kw_defaults = [self.visit(d) if d is not None else None for d in node.args.kw_defaults]
        return node

    visit_AsyncFunctionDef = visit_FunctionDef


def _is_symbolic_arg(x):
    return isinstance(x, (S.SymStr, S.Tainted, V.SymInt, V.SymReal, V.SymFloat, V.SymBool))


def _struct_key(x):
    if isinstance(x, S.SymStr):
        return ("S", tuple(ch if isinstance(ch, str) else ("z", ch.get_id()) for ch in x.chars))
    if isinstance(x, (V.SymInt, V.SymReal, V.SymFloat, V.SymBool)):
        return ("z", type(x).__name__, x.e.get_id())
    if isinstance(x, S.Tainted):
        raise TypeError("tainted")
    return ("c", type(x).__name__, x)


def _cache_bypass(cached):
    """lru_cache'd function -> dispatcher that bypasses the cache for symbolic arguments
    (hashing a symbolic key would enumerate it).  Concrete calls still use the real cache."""
    raw = cached.__wrapped__

    @functools.wraps(raw)
    def disp(*a, **k):
        if any(_is_symbolic_arg(x) for x in a) or any(_is_symbolic_arg(x) for x in k.values()):
            # model of the cache for symbolic arguments: a second call on this path with *structurally
            # identical* arguments (same cells / same z3 terms - certainly equal) is a certain cache hit and
            # gets the very object the first call returned, as the real cache would hand out; arguments that
            # are merely possibly equal are treated as misses (an under-approximation of sharing)
            c = core.CTX
            try:
                key = (tuple(_struct_key(x) for x in a), tuple(sorted((n, _struct_key(v)) for n, v in k.items()))) if c is not None else None
                hash(key)
            except TypeError:
                key = None
            if key is None:
                return raw(*a, **k)
            memo = c.__dict__.setdefault("cache_memo", {}).setdefault(id(cached), {})
            if key in memo:
                return memo[key][1]
            out = raw(*a, **k)
            memo[key] = ((a, k), out)  # keeps the argument terms alive, so their ids stay unique
            return out
        return cached(*a, **k)

    disp.cache_info = cached.cache_info
    disp.cache_clear = cached.cache_clear
    disp.__wrapped__ = raw
    disp._sx_cached = cached
    return disp


SHADOWS = {
    "int": V.SxInt,
    "float": V.SxFloat,
    "str": S.SxStr,
    "ord": S.sx_ord,
    "chr": S.sx_chr,
    "round": V.sx_round,
    "divmod": V.sx_divmod,
    "bytearray": S.SxByteArray,
    "bytes": S.SxBytes,
}
EXTRA_GLOBALS: dict[str, dict] = {}  # module name -> {global name: object}, set by checks


class Loader(importlib.machinery.SourceFileLoader):
    def get_code(self, fullname):
        path = self.get_filename(fullname)
        src = self.get_data(path)
        LOADED[fullname] = hashlib.sha256(src).hexdigest()
        tree = ast.parse(src, path)
        tree = Rewriter().visit(tree)
        ast.fix_missing_locations(tree)
        return compile(tree, path, "exec", dont_inherit=True)

    def exec_module(self, module):
        d = module.__dict__
        d[RT_NAME] = RT
        d.update(SHADOWS)
        d.update(EXTRA_GLOBALS.get(module.__name__, {}))
        super().exec_module(module)
        for k, v in list(d.items()):
            if hasattr(v, "cache_info") and hasattr(v, "__wrapped__") and not hasattr(v, "_sx_cached"):
                if getattr(v, "__module__", None) == module.__name__:
                    d[k] = _cache_bypass(v)
        import struct as _struct

        if d.get("struct") is _struct:
            from . import stubs

            d["struct"] = stubs.SxStruct
        # names imported from datetime etc. stay; per-check substitutions go via EXTRA_GLOBALS
        for k, v in EXTRA_GLOBALS.get(module.__name__ + ":post", {}).items():
            d[k] = v


class Finder(importlib.machinery.PathFinder):
    @classmethod
    def find_spec(cls, fullname, path=None, target=None):
        if fullname.split(".")[0] not in PREFIXES:
            return None
        if path is None:
            path = [SRC_ROOT]
        spec = importlib.machinery.PathFinder.find_spec(fullname, path, target)
        if spec and spec.origin and spec.origin.endswith(".py"):
            spec.loader = Loader(fullname, spec.origin)
        return spec


_installed = False


def install(src_root: str | None = None):
    """Activate the instrumenting importer (idempotent).  Must run before ramses_* is imported."""
    global _installed, SRC_ROOT
    if src_root:
        SRC_ROOT = src_root
    if _installed:
        return
    for m in list(sys.modules):
        if m.split(".")[0] in PREFIXES:
            raise RuntimeError(f"{m} imported before instrumentation")
    sys.dont_write_bytecode = True
    sys.meta_path.insert(0, Finder)
    if SRC_ROOT not in sys.path:
        sys.path.insert(0, SRC_ROOT)
    _installed = True


def plain(src_root: str | None = None):
    """Use the *uninstrumented* package from the same source root (replay / differential)."""
    root = src_root or SRC_ROOT
    sys.dont_write_bytecode = True
    if root in sys.path:
        sys.path.remove(root)
    sys.path.insert(0, root)
