"""Check driver: run a property's queries, replay counterexamples on the plain package,
classify against known findings, write evidence, set the exit code."""
from __future__ import annotations

import hashlib
import importlib
import inspect
import json
import os
import subprocess
import sys
import time
from collections import Counter, defaultdict

from . import core, runner

VERIF = os.path.dirname(os.path.dirname(os.path.abspath(__file__)))
EVIDENCE_DIR = os.environ.get("SYMX_EVIDENCE_DIR") or os.path.join(VERIF, "evidence")
REPLAY_DIR = os.environ.get("SYMX_REPLAY_DIR") or os.path.join(VERIF, "replays")
KNOWN = os.path.join(VERIF, "known_findings.json")

EXIT_OK, EXIT_VIOLATION, EXIT_HARNESS = 0, 1, 2


def load_known(prop):
    try:
        data = json.load(open(KNOWN))
    except FileNotFoundError:
        return {}, []
    open_ = {f["signature"]: f for f in data.get("findings", []) if f["property"] == prop and f.get("status", "open") == "open"}
    fixed = [f for f in data.get("findings", []) if f["property"] == prop and f.get("status") == "fixed"]
    return open_, fixed


def _fn_digest(spec):
    """'module:qualname' -> {qualname, file, sha256} of the *current* source."""
    modname, qual = spec.split(":")
    try:
        mod = importlib.import_module(modname)
        obj = mod
        for part in qual.split("."):
            obj = getattr(obj, part)
        obj = getattr(obj, "__wrapped__", obj)
        if isinstance(obj, property):
            obj = obj.fget
        obj = inspect.unwrap(obj) if callable(obj) else obj
        src = inspect.getsource(obj)
        file = inspect.getsourcefile(obj)
        return {"qualname": spec, "file": file, "sha256": hashlib.sha256(src.encode()).hexdigest()[:16]}
    except Exception as e:  # noqa: BLE001
        return {"qualname": spec, "error": f"{type(e).__name__}: {e}"}


def run_replays(check_mod_name, items, timeout=600):
    """items: list of dict(query, label, cex, info, params) -> list of replay results (plain interpreter)."""
    if not items:
        return []
    tmp = os.path.join(REPLAY_DIR, f".batch-{os.getpid()}.json")
    os.makedirs(REPLAY_DIR, exist_ok=True)
    with open(tmp, "w") as f:
        json.dump(items, f)
    try:
        env = dict(os.environ)
        env["PYTHONPATH"] = VERIF + os.pathsep + env.get("PYTHONPATH", "")
        p = subprocess.run(
            [sys.executable, "-m", "symx.replay", check_mod_name, tmp],
            capture_output=True, text=True, timeout=timeout, env=env, cwd=VERIF,
        )
        out = p.stdout.strip().splitlines()
        for line in reversed(out):
            if line.startswith("REPLAY-RESULTS "):
                return json.loads(line[len("REPLAY-RESULTS "):])
        return [{"reproduced": False, "observed": f"replay runner failed: rc={p.returncode} {p.stderr[-600:]}", "signature": None, "runner_error": True} for _ in items]
    except subprocess.TimeoutExpired:
        return [{"reproduced": False, "observed": "replay timeout", "signature": None, "runner_error": True} for _ in items]
    finally:
        try:
            os.unlink(tmp)
        except OSError:
            pass


def main_check(prop: str, tier: str, argv=None):
    t0 = time.time()
    seed = int(os.environ.get("VERIF_SEED", "0") or 0)
    tier = os.environ.get("VERIF_TIER", tier) or tier
    if tier not in ("quick", "thorough"):
        tier = "quick"
    modname = f"checks.{prop.lower()}"
    mod = importlib.import_module(modname)
    mod.setup(tier)
    queries = mod.queries(tier, seed)
    log = lambda *a: print(*a, file=sys.stderr, flush=True)  # noqa: E731
    log(f"[{prop}] {tier}: {len(queries)} queries")

    def progress(q, r):
        if os.environ.get("SYMX_VERBOSE"):
            log(f"  {q.name}: paths={r.paths} viol={len(r.violations)} inconcl={len(r.inconclusive)} {r.wall_s:.1f}s {r.error or ''}")

    results = runner.run_queries(queries, progress=progress)

    harness_errors = []
    planned = [q for q in queries if not q.canary]
    canaries = [(q, r) for q, r in zip(queries, results) if q.canary]
    for q, r in canaries:
        if r.error:
            harness_errors.append(f"canary {q.name}: {r.error[:300]}")
        elif not r.violations:
            harness_errors.append(f"canary {q.name} was not caught (obligations={r.obligations})")

    # ---- collect violations of the real queries, group, replay
    groups = defaultdict(list)
    for q, r in zip(queries, results):
        if q.canary:
            continue
        if r.error:
            harness_errors.append(f"{q.name}: {r.error[:400]}")
        for v in r.violations:
            region = (v.info or {}).get("region") if isinstance(v.info, dict) else None
            inf = (v.info or {}).get("info") if isinstance(v.info, dict) else v.info
            # distinct diagnostic texts (e.g. the assertion site of a loop exception) are replayed separately, so
            # that a recorded finding cannot hide a different failure of the same obligation by sampling
            detail = inf[:160] if isinstance(inf, str) and len(groups) < 400 else None
            groups[(q.group or q.name, v.label, region, detail)].append((q, v))
    per_group = int(os.environ.get("SYMX_REPLAYS_PER_GROUP", "3"))
    items, item_keys = [], []
    for key, vs in groups.items():
        seen = set()
        for q, v in vs:
            ck = json.dumps(v.cex, sort_keys=True, default=str)
            if ck in seen:
                continue
            seen.add(ck)
            info = v.info.get("info") if isinstance(v.info, dict) and "info" in v.info else v.info
            items.append({"property": prop, "query": q.name, "group": q.group, "label": v.label, "cex": v.cex, "info": info, "params": _plain(q.params)})
            item_keys.append(key)
            if len(seen) >= per_group:
                break
    rres = run_replays(modname, items) if items else []
    known_open, known_fixed = load_known(prop)
    known_hit, new_violations, unconfirmed = {}, [], []
    for it, key, rr in zip(items, item_keys, rres):
        if rr.get("reproduced"):
            sig = rr.get("signature") or f"{key[0]}:{key[1]}"
            if sig in known_open:
                known_hit.setdefault(sig, {"what": known_open[sig].get("what", ""), "example": it["cex"], "observed": rr.get("observed")})
            else:
                new_violations.append((it, rr, sig))
        else:
            unconfirmed.append({"query": it["query"], "label": it["label"], "cex": it["cex"], "observed": rr.get("observed")})
            if rr.get("runner_error"):
                harness_errors.append(f"replay runner: {rr.get('observed')}")

    # ---- write replay files for new violations
    replay_paths = []
    seen_sig = set()
    for it, rr, sig in new_violations:
        if sig in seen_sig:
            continue
        seen_sig.add(sig)
        d = os.path.join(REPLAY_DIR, prop)
        os.makedirs(d, exist_ok=True)
        body = dict(it, signature=sig, observed=rr.get("observed"), check=modname)
        h = hashlib.sha256(json.dumps(body, sort_keys=True, default=str).encode()).hexdigest()[:12]
        path = os.path.join(d, f"{h}.json")
        with open(path, "w") as f:
            json.dump(body, f, indent=1, default=str)
        replay_paths.append((sig, path, rr.get("observed")))

    # ---- coverage accounting
    conclusive = [r for q, r in zip(queries, results) if not q.canary and not r.error and not r.inconclusive]
    inconcl = [
        {"query": q.name, "reasons": dict(Counter(i["reason"] for i in r.inconclusive)), "first": (r.inconclusive[0]["where"] if r.inconclusive else r.error)}
        for q, r in zip(queries, results)
        if not q.canary and (r.inconclusive or r.error)
    ]
    real = [r for q, r in zip(queries, results) if not q.canary]
    paths = sum(r.paths for r in real)
    sym_paths = sum(r.sym_paths for r in real)
    obligations = sum(r.obligations for r in real)
    discharged = sum(r.discharged for r in real)
    if obligations == 0:
        harness_errors.append("vacuous: no obligation was reached by any query")
    floor = getattr(mod, "MIN_CONCLUSIVE_FRACTION", 0.5)
    if planned and len(conclusive) < floor * len(planned):
        harness_errors.append(f"conclusive coverage {len(conclusive)}/{len(planned)} below the floor {floor}")
    # every group of queries must stay mostly conclusive: a change that turns a whole family of
    # queries into 'unsupported'/'budget' must not pass silently (exit 2, never a verdict)
    gfloor = getattr(mod, "MIN_GROUP_CONCLUSIVE_FRACTION", 0.5)
    optional = set(getattr(mod, "OPTIONAL_GROUPS", ()))
    by_group = defaultdict(lambda: [0, 0, 0])
    for q, r in zip(queries, results):
        if q.canary:
            continue
        g = (q.group or q.name).split(":")[0]
        by_group[g][0] += 1
        if not r.error and not r.inconclusive:
            by_group[g][1] += 1
        by_group[g][2] += r.obligations
    may_be_empty = set(getattr(mod, "OBLIGATION_FREE_GROUPS", ()))
    for g, (n, ok, nobl) in sorted(by_group.items()):
        if g not in optional and ok < gfloor * n:
            harness_errors.append(f"query group '{g}': only {ok}/{n} conclusive (floor {gfloor}) - inconclusive, not a pass")
        if g not in optional and g not in may_be_empty and nobl == 0:
            # a family of queries none of whose paths reaches an assertion proves nothing (e.g. every input rejected)
            harness_errors.append(f"query group '{g}': vacuous - no obligation reached on any of its {n} queries")
    samples = []
    for q, r in zip(queries, results):
        if q.canary:
            continue
        for s in r.samples[:1]:
            samples.append(dict(query=q.name, **s))
        if len(samples) >= 8:
            break
    if not samples:
        samples = [{"query": q.name, "params": _plain(q.params), "outcomes": dict(r.outcomes.most_common(3))} for q, r in list(zip(queries, results))[:3]]
    outcomes = Counter()
    for r in real:
        outcomes.update(r.outcomes)
    fn_specs = getattr(mod, "FUNCTIONS", [])
    wall = time.time() - t0
    try:
        from . import instrument
        src_root, loaded = instrument.SRC_ROOT, len(instrument.LOADED)
    except Exception:  # noqa: BLE001
        src_root, loaded = None, 0
    ev = {
        "property_id": prop,
        "tier": tier,
        "seed": seed,
        "level": getattr(mod, "LEVEL", "other"),
        "wall_s": round(wall, 2),
        "violations": len(replay_paths),
        "assumptions": list(getattr(mod, "ASSUMPTIONS", [])),
        "coverage": {
            "explanation": getattr(mod, "EXPLANATION", mod.__doc__ or ""),
            "technique": "symbolic execution of the real source (symx concolic engine) + z3 per-path obligations",
            "source_root": src_root,
            "modules_recompiled_from_source": loaded,
            "functions_encoded": [_fn_digest(s) for s in fn_specs],
            "bounds": getattr(mod, "BOUNDS", {}).get(tier, getattr(mod, "BOUNDS", {})),
            "outside_claim": list(getattr(mod, "OUTSIDE", [])),
            "stubs": list(getattr(mod, "STUBS", [])),
            "queries": {"planned": len(planned), "conclusive": len(conclusive), "inconclusive": inconcl[:60], "canaries": len(canaries), "canaries_caught": sum(1 for _, r in canaries if r.violations)},
            "paths": paths,
            "evaluations": max(paths, 1),
            "distinct_nontrivial": sym_paths,
            "rule": "one evaluation = one feasible execution path of the real code (an equivalence class of inputs given by its path condition); non-trivial = the path took >= 1 decision on a symbolic value; paths are distinct by construction (DFS over disjoint path conditions)",
            "obligations": obligations,
            "discharged": discharged,
            "obligation_sites": dict(sum((r.labels for r in real), Counter()).most_common(40)),
            "solver": {"z3": {"version": _z3v(), "calls": sum(r.solver_calls for r in real), "seconds": round(sum(r.solver_s for r in real), 2)}},
            "exhaustive": bool(planned) and len(conclusive) == len(planned) and all(r.exhaustive for r in conclusive),
            "exhaustive_queries": sum(1 for r in conclusive if r.exhaustive),
            "outcome_classes": dict(outcomes.most_common(25)),
            "samples": samples,
            "counterexamples_found": sum(len(r.violations) for r in real),
            "counterexamples_replayed": len(items),
            "unconfirmed_counterexamples": unconfirmed[:20],
            "known_findings_hit": known_hit,
            "fixed_findings_on_file": [f.get("line") or f.get("what") for f in known_fixed],
            "replays": [p for _, p, _ in replay_paths],
            "traces_validated_against_impl": len(items),
            "checker_cmd": f"./vcheck {prop} --tier {tier}",
            "trusted_base": ["z3 " + _z3v(), "CPython " + sys.version.split()[0], "symx (this repo, differential self-check: ./vcheck selfcheck)"],
            "query_groups": {g: {"planned": n, "conclusive": ok, "obligations": nobl} for g, (n, ok, nobl) in sorted(by_group.items())},
            "harness_errors": harness_errors,
        },
    }
    extra = getattr(mod, "extra_evidence", None)
    if extra:
        try:
            ev["coverage"].update(extra(queries, results))
        except Exception as e:  # noqa: BLE001
            harness_errors.append(f"extra_evidence: {e!r}")
    os.makedirs(EVIDENCE_DIR, exist_ok=True)
    with open(os.path.join(EVIDENCE_DIR, f"{prop}.json"), "w") as f:
        json.dump(ev, f, indent=1, default=str)

    for sig, hit in known_hit.items():
        print(f"KNOWN-FINDING: property={prop} {sig}: {hit['what']}")
    for u in unconfirmed[:5]:
        log(f"[{prop}] unconfirmed counterexample (not reproduced on the plain package, treated as inconclusive): {u['query']} {u['label']} {u['cex']}")
    for sig, path, obs in replay_paths:
        print(f"VIOLATION property={prop} replay={path}")
        log(f"    signature={sig} observed={obs}")
    log(f"[{prop}] {tier}: queries {len(conclusive)}/{len(planned)} conclusive, paths={paths}, obligations {discharged}/{obligations} discharged, "
        f"violations={len(replay_paths)}, known={len(known_hit)}, unconfirmed={len(unconfirmed)}, {wall:.1f}s")
    if replay_paths:
        return EXIT_VIOLATION
    if harness_errors:
        for h in harness_errors[:10]:
            log(f"[{prop}] HARNESS-ERROR: {h}")
        return EXIT_HARNESS
    return EXIT_OK


def _plain(d):
    return {k: (v if isinstance(v, (str, int, float, bool, type(None), list, dict)) else repr(v)) for k, v in (d or {}).items()}


def _z3v():
    import z3

    return z3.get_version_string()


def main_replay(path):
    body = json.load(open(path))
    rres = run_replays(body["check"], [body])
    rr = rres[0]
    print(json.dumps(rr, indent=1, default=str))
    if rr.get("reproduced"):
        print(f"VIOLATION property={body['property']} replay={path}")
        return EXIT_VIOLATION
    return EXIT_OK
