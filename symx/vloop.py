"""Virtual-time asyncio event loop whose clock may be symbolic (SymReal) or a plain float.

The real asyncio Future/Task/sleep/wait_for/timeout implementations run on it unchanged;
the only places where (possibly symbolic) times are compared are timer ordering and the
``when <= loop.time()`` tests inside asyncio itself."""
from __future__ import annotations

import asyncio
import collections
from asyncio import events


class LoopStepLimit(Exception):
    pass


class VLoop(asyncio.AbstractEventLoop):
    def __init__(self, t0=0.0, tie_hook=None, batch_hook=None):
        # batch_hook(first, other) -> bool: may ``other`` (the next timer, due later than ``first``) become
        # ready in the *same* loop iteration as ``first``?  A real loop runs every timer that is due when it
        # wakes up (clock resolution, a blocked loop) back to back, before any callback those timers schedule
        # with call_soon - the hook lets a harness explore that (it may decide on symbolic times / Booleans).
        self.batch_hook = batch_hook
        self._now = t0
        self._anchor = t0
        self._ready: collections.deque = collections.deque()
        self._timers: list = []
        self._closed = False
        self.exc_contexts: list = []  # everything handed to the loop exception handler
        self._exception_handler = None
        self._task_factory = None
        self.steps = 0
        self.tie_hook = tie_hook  # callable(a, b) -> bool: on equal times run b before a?
        self.log: list = []

    # -- clock / flags
    def time(self):
        return self._now

    def get_debug(self):
        return False

    def set_debug(self, v):
        pass

    def is_running(self):
        return True

    def is_closed(self):
        return self._closed

    def close(self):
        self._closed = True

    # -- scheduling
    def call_soon(self, cb, *args, context=None):
        h = asyncio.Handle(cb, args, self, context)
        self._ready.append(h)
        return h

    call_soon_threadsafe = call_soon

    def call_later(self, delay, cb, *args, context=None):
        return self.call_at(self._now + delay, cb, *args, context=context)

    def call_at(self, when, cb, *args, context=None):
        h = asyncio.TimerHandle(when, cb, args, self, context)
        self._timers.append(h)
        h._scheduled = True
        return h

    def _timer_handle_cancelled(self, h):
        pass

    def create_future(self):
        return asyncio.Future(loop=self)

    def create_task(self, coro, *, name=None, context=None):
        if self._task_factory is not None:
            return self._task_factory(self, coro)
        return asyncio.Task(coro, loop=self, name=name, context=context)

    def set_task_factory(self, f):
        self._task_factory = f

    def get_task_factory(self):
        return self._task_factory

    def run_in_executor(self, executor, func, *args):
        fut = self.create_future()

        def _run():
            try:
                fut.set_result(func(*args))
            except Exception as e:  # noqa: BLE001
                fut.set_exception(e)

        self.call_soon(_run)
        return fut

    # -- exception handling
    def set_exception_handler(self, h):
        self._exception_handler = h

    def get_exception_handler(self):
        return self._exception_handler

    def default_exception_handler(self, context):
        self.exc_contexts.append(context)

    def call_exception_handler(self, context):
        self.exc_contexts.append(context)

    # -- running
    def _pop_earliest(self):
        self._timers = [t for t in self._timers if not t._cancelled]
        if not self._timers:
            return None
        best = self._timers[0]
        for t in self._timers[1:]:
            if t._when < best._when:  # may fork (symbolic time)
                best = t
            elif self.tie_hook is not None and t._when == best._when and self.tie_hook(best, t):
                best = t
        self._timers.remove(best)
        return best

    def run(self, until=None, horizon=None, max_steps=200_000):
        """Run until ``until`` (a future, or a callable predicate) is done, no work is left,
        or virtual time would pass ``horizon``.

        Without a batch hook the ready queue is drained before the next timer is looked at.  With one, the
        loop works in *generations* like asyncio's ``_run_once``: only the handles queued when a generation
        starts are run; then the timers that are due - and, if the hook says so, those within its latency
        window - join the queue behind the callbacks scheduled meanwhile with call_soon... exactly the
        order a real loop produces (call_soon'd work of iteration N runs in N+1, after N's I/O and timers)."""
        events._set_running_loop(self)
        try:
            while True:
                if self._ready:
                    n = len(self._ready) if self.batch_hook is not None else -1
                    while self._ready and n != 0:
                        h = self._ready.popleft()
                        n -= 1
                        self.steps += 1
                        if self.steps > max_steps:
                            raise LoopStepLimit(f"> {max_steps} loop steps")
                        if not h._cancelled:
                            h._run()
                        if until is not None and self._done(until):
                            return True
                    if self.batch_hook is not None and self._ready:
                        # generation boundary: what became due while this generation ran goes *before* the
                        # callbacks it scheduled (they were appended to the deque already: insert in front)
                        pulled = []
                        while True:
                            t2 = self._pop_earliest()
                            if t2 is None:
                                break
                            if (horizon is not None and t2._when > horizon) or not (t2._when <= self._now or self.batch_hook(None, t2, self._anchor)):
                                self._timers.append(t2)
                                break
                            if t2._when > self._now:
                                self._now = t2._when
                            pulled.append(t2)
                        # asyncio appends I/O and timer handles *after* the call_soon'd ones of the previous
                        # iteration: keep that order
                        self._ready.extend(pulled)
                    continue
                if until is not None and self._done(until):
                    return True
                t = self._pop_earliest()
                if t is None:
                    return until is None
                if horizon is not None and t._when > horizon:  # may fork
                    self._timers.append(t)
                    return False
                if t._when > self._now:  # may fork
                    self._now = t._when
                self._anchor = self._now  # the burst of iterations that starts here takes at most the hook's window
                self._ready.append(t)
                while self.batch_hook is not None:
                    t2 = self._pop_earliest()
                    if t2 is None:
                        break
                    if (horizon is not None and t2._when > horizon) or not self.batch_hook(t, t2, self._anchor):
                        self._timers.append(t2)
                        break
                    if t2._when > self._now:
                        self._now = t2._when
                    self._ready.append(t2)
        finally:
            events._set_running_loop(None)

    @staticmethod
    def _done(until):
        return until.done() if hasattr(until, "done") else bool(until())

    def pending_timers(self):
        return [t for t in self._timers if not t._cancelled]


class running:
    """``with running(loop):`` makes asyncio.get_running_loop() return it (for constructors)."""

    def __init__(self, loop):
        self.loop = loop

    def __enter__(self):
        events._set_running_loop(self.loop)
        return self.loop

    def __exit__(self, *a):
        events._set_running_loop(None)
