"""Constructors for symbolic inputs (all are registered by name for counterexamples)."""
from __future__ import annotations

import z3

from . import core
from .core import K, fresh_num
from .strings import SymStr, mk
from .values import SymBool, SymInt, SymReal, SymFloat, sbool

HEX = "0123456789ABCDEF"


def _reg(ctx, name, obj):
    ctx.inputs[name] = obj
    return obj


def sym_chars(ctx, name, n, allowed=None, lo=None, hi=None, exclude=""):
    """n-character symbolic string; alphabet = explicit ``allowed`` set or code range."""
    cs = []
    for i in range(n):
        v = fresh_num(f"{name}[{i}]")
        if allowed is not None:
            codes = sorted(set(ord(c) for c in allowed))
            # compress into ranges
            rs, start, prev = [], codes[0], codes[0]
            for c in codes[1:]:
                if c != prev + 1:
                    rs.append((start, prev))
                    start = c
                prev = c
            rs.append((start, prev))
            ctx.assume(z3.Or([z3.And(v >= a, v <= b) if a != b else v == a for a, b in rs]))
        else:
            ctx.assume(z3.And(v >= lo, v <= hi))
            for x in exclude:
                ctx.assume(v != ord(x))
        cs.append(v)
    return _reg(ctx, name, SymStr(cs) if cs else "")


def sym_hex(ctx, name, n):
    return sym_chars(ctx, name, n, allowed=HEX)


def sym_digits(ctx, name, n):
    return sym_chars(ctx, name, n, allowed="0123456789")


def sym_printable(ctx, name, n, exclude=""):
    return sym_chars(ctx, name, n, lo=32, hi=126, exclude=exclude)


def pinned(ctx, name, text):
    """symbolic cells constrained equal to ``text`` (exercises symbolic code paths with a known answer)"""
    cs = []
    for i, ch in enumerate(text):
        v = fresh_num(f"{name}[{i}]")
        ctx.assume(v == ord(ch))
        cs.append(v)
    return _reg(ctx, name, SymStr(cs) if cs else "")


def sym_int(ctx, name, lo=None, hi=None):
    v = fresh_num(name)
    if lo is not None:
        ctx.assume(v >= lo)
    if hi is not None:
        ctx.assume(v <= hi)
    return _reg(ctx, name, SymInt(v))


def sym_real(ctx, name, lo=None, hi=None):
    v = z3.Real(name)
    if lo is not None:
        ctx.assume(v >= lo)
    if hi is not None:
        ctx.assume(v <= hi)
    return _reg(ctx, name, SymReal(v))


def sym_bool(ctx, name):
    return _reg(ctx, name, SymBool(z3.Bool(name)))


def sym_float(ctx, name):
    return _reg(ctx, name, SymFloat(z3.FP(name, z3.Float64())))


def choice(ctx, name, options):
    """Pick one of ``options`` (forks; one path per feasible option).  Recorded by index."""
    options = list(options)
    v = z3.Int(f"{name}#")
    ctx.assume(z3.And(v >= 0, v < len(options)))
    ctx.inputs[name] = _Choice(v, options)
    for i, o in enumerate(options[:-1]):
        if ctx.decide(v == i):
            return o
    return options[-1]


def flag(ctx, name):
    """A free boolean decided immediately (forks)."""
    return bool(sym_bool(ctx, name))


class _Choice:
    def __init__(self, v, options):
        self.v, self.options = v, options

    def __sx_concretize__(self, model):
        i = model.eval(self.v, model_completion=True).as_long()
        o = self.options[i]
        return o if isinstance(o, (str, int, float, bool, type(None))) else repr(o)
