"""symx core: re-execution DFS concolic engine over z3.

One *query* = one harness function ``fn(ctx)`` run once per feasible path.  Symbolic
booleans decide in ``__bool__`` (see values.py) by calling :meth:`Ctx.decide`.
Obligations are discharged with :meth:`Ctx.check` (``sat(PC and not cond)``).
"""
from __future__ import annotations

import os
import sys
import time
import traceback
from collections import Counter
from dataclasses import dataclass, field
from typing import Any, Callable

import z3


class EngineSignal(KeyboardInterrupt):
    """Control flow of the engine.  Derives from KeyboardInterrupt so that neither the
    code under test (``except Exception``) nor asyncio (tasks/handles re-raise
    KeyboardInterrupt) can swallow it."""


class PathAbort(EngineSignal):
    """Current path is infeasible (an assumption contradicted the path condition)."""


class Unsupported(EngineSignal):
    """An operation outside the supported Python subset was met -> inconclusive."""


class Budget(EngineSignal):
    """Wall-clock budget of the query exhausted."""


class SplitPoint(EngineSignal):
    """Decision depth at which the DFS is handed to other workers was reached."""


CTX: "Ctx | None" = None  # the context of the path being executed


def simplify(e):
    """z3.simplify, tolerant of the occasional internal z3 error"""
    try:
        return z3.simplify(e)
    except z3.Z3Exception:
        return e


def ctx() -> "Ctx":
    if CTX is None:
        raise RuntimeError("no symbolic context active")
    return CTX


class Cfg:
    mode = "int"  # "int": Python ints are z3 Int; "bv": 64-bit bit-vectors (FP kernels)
    bv_width = 64
    solver_timeout_ms = 60_000


def K(n: int):
    """A numeric constant in the current integer domain."""
    if Cfg.mode == "bv":
        return z3.BitVecVal(n, Cfg.bv_width)
    return z3.IntVal(n)


def fresh_num(name: str):
    if Cfg.mode == "bv":
        return z3.BitVec(name, Cfg.bv_width)
    return z3.Int(name)


@dataclass
class Violation:
    label: str
    cex: dict
    info: Any = None
    path_index: int = 0


@dataclass
class QueryResult:
    name: str
    params: dict = field(default_factory=dict)
    paths: int = 0
    decisions: int = 0
    sym_paths: int = 0  # paths with >= 1 symbolic decision
    solver_calls: int = 0
    solver_s: float = 0.0
    obligations: int = 0  # obligation instances reached
    discharged: int = 0
    sym_obligations: int = 0  # of which needed the solver
    violations: list = field(default_factory=list)
    inconclusive: list = field(default_factory=list)  # [{reason, where}]
    exhaustive: bool = False
    outcomes: Counter = field(default_factory=Counter)
    samples: list = field(default_factory=list)
    wall_s: float = 0.0
    labels: Counter = field(default_factory=Counter)
    error: str | None = None  # harness error (engine bug, not a verdict)
    subprefixes: list = field(default_factory=list)  # DFS split: prefixes to explore elsewhere


class Ctx:
    def __init__(self, prefix, budget_deadline=None):
        self.solver = z3.Solver()
        self.solver.set("timeout", Cfg.solver_timeout_ms)
        self.prefix = prefix  # list[(bool taken, alt_feasible)] to replay
        self.trace: list = []
        self.pc: list = []
        self.model = None  # a model of the current PC (or None = unknown)
        self.n_checks = 0
        self.t_solver = 0.0
        self.inputs: dict[str, Any] = {}  # name -> symbolic object (for cex)
        self.obligations = 0
        self.discharged = 0
        self.sym_obligations = 0
        self.violations: list[Violation] = []
        self.labels: Counter = Counter()
        self.fatal: BaseException | None = None
        self.notes: list = []
        self.deadline = budget_deadline
        self.n_sym_decisions = 0
        self.blocked: dict = {}
        self.split_depth = None
        self.known_regions: dict = {}

    # -- solver plumbing ---------------------------------------------------------
    def _check(self, *extra):
        if self.deadline is not None and time.time() > self.deadline:
            self.fatal = Budget("wall budget")
            raise self.fatal
        self.n_checks += 1
        t0 = time.time()
        if Cfg.mode == "bv" or not getattr(self, "incremental", True):
            # FP/BV kernels: a fresh non-incremental solver lets z3 use its bit-blasting
            # tactic pipeline (orders of magnitude faster than the incremental core)
            s = z3.Solver()
            s.set("timeout", Cfg.solver_timeout_ms)
            s.add(*self.pc)
            if extra:
                s.add(*extra)
        else:
            s = self.solver
            if extra:
                s.push()
                s.add(*extra)
        try:
            r = s.check()
            m = s.model() if r == z3.sat else None
            why = s.reason_unknown() if r == z3.unknown else ""
        except z3.Z3Exception:
            # an internal error of the incremental core (seen: b'unreachable'): decide this one query with a
            # fresh solver over the same path condition
            s2 = z3.Solver()
            s2.set("timeout", Cfg.solver_timeout_ms)
            s2.add(*self.pc)
            if extra:
                s2.add(*extra)
            r = s2.check()
            m = s2.model() if r == z3.sat else None
            why = s2.reason_unknown() if r == z3.unknown else ""
        if extra and s is self.solver:
            s.pop()
        self.t_solver += time.time() - t0
        if os.environ.get("SYMX_TRACE_SOLVER"):
            print(f"    [solver] {r} {time.time() - t0:.2f}s extra={str(extra)[:100]}", file=sys.stderr)
        if r == z3.unknown:
            self.fatal = Unsupported(f"solver unknown: {why}")
            raise self.fatal
        return r == z3.sat, m

    def sat(self, cond):
        """Is PC and cond satisfiable?  -> (bool, model|None)"""
        return self._check(cond)

    def assume(self, cond):
        cond = _as_z3_bool(cond)
        if z3.is_true(cond):
            return
        self.pc.append(cond)
        self.solver.add(cond)
        if self.model is not None:
            v = self.model.eval(cond, model_completion=True)
            if not z3.is_true(v):
                self.model = None
        if len(self.trace) >= len(self.prefix) and self.model is None:
            ok, m = self._check()
            if not ok:
                raise PathAbort()
            self.model = m

    def _ensure_model(self):
        if self.model is None:
            ok, m = self._check()
            if not ok:
                raise PathAbort()
            self.model = m

    def decide(self, expr) -> bool:
        expr = simplify(expr)
        if z3.is_true(expr):
            return True
        if z3.is_false(expr):
            return False
        i = len(self.trace)
        self.n_sym_decisions += 1
        if i < len(self.prefix):
            val, alt = self.prefix[i]
            self.trace.append((val, alt))
            c = expr if val else z3.Not(expr)
            self.pc.append(c)
            self.solver.add(c)
            self.model = None
            return val
        if self.split_depth is not None and i >= self.split_depth:
            raise SplitPoint()
        self._ensure_model()
        mv = self.model.eval(expr, model_completion=True)
        cur = z3.is_true(mv)
        if not cur and not z3.is_false(mv):
            # model could not evaluate (should not happen with completion)
            ok_t, m_t = self._check(expr)
            cur = ok_t
            if ok_t:
                self.model = m_t
        other = z3.Not(expr) if cur else expr
        ok_o, m_o = self._check(other)
        # DFS order: explore True first when both feasible
        if cur and ok_o:
            val, alt = True, True
        elif cur:
            val, alt = True, False
        elif ok_o:  # model says False, True is also feasible -> take True first
            val, alt = True, True
            self.model = m_o
        else:
            val, alt = False, False
        self.trace.append((val, alt))
        c = expr if val else z3.Not(expr)
        self.pc.append(c)
        self.solver.add(c)
        return val

    # -- obligations -------------------------------------------------------------
    def check(self, cond, label: str, info: Any = None, regions: dict | None = None) -> bool:
        """Obligation: ``cond`` must hold for every input on this path.

        Returns True when discharged.  On a counterexample a Violation is recorded
        (with the concretised inputs) and the path continues under ``cond``.
        ``regions`` maps known-finding signature -> z3 predicate over the inputs: when
        given, the engine blocks those regions one by one and re-solves, so that a
        different violation at the same site is still found.
        """
        self.obligations += 1
        self.labels[label] += 1
        info = _plain_info(info)
        if isinstance(cond, bool):
            if cond:
                self.discharged += 1
                return True
            self._ensure_model()
            self.violations.append(Violation(label, self.concretize_inputs(self.model), info))
            return False
        c = _as_z3_bool(cond)
        self.sym_obligations += 1
        neg = z3.Not(c)
        blocked = []
        found = False
        while True:
            ok, m = self._check(neg, *blocked)
            if not ok:
                break
            found = True
            cex = self.concretize_inputs(m)
            sig = None
            if regions:
                for s, pred in regions.items():
                    if z3.is_true(m.eval(_as_z3_bool(pred), model_completion=True)):
                        sig = s
                        break
            self.violations.append(Violation(label, cex, {"info": info, "region": sig}))
            if sig is None:
                break
            blocked.append(z3.Not(_as_z3_bool(regions[sig])))
        if not found:
            self.discharged += 1
            return True
        # continue the path under cond (if possible)
        ok, m = self._check(c)
        if not ok:
            raise PathAbort()
        self.pc.append(c)
        self.solver.add(c)
        self.model = m
        return False

    def concretize_inputs(self, model) -> dict:
        from . import values

        return {k: values.concretize(v, model) for k, v in self.inputs.items()}

    def note(self, x):
        self.notes.append(x)


def _plain_info(info):
    """diagnostic texts travel to the report as plain data (a rendered symbolic number / text is only named)"""
    from .strings import SymStr, Tainted

    if isinstance(info, Tainted):
        return f"<rendered symbolic number {info.what}>"
    if isinstance(info, SymStr):
        return "<symbolic text>"
    if isinstance(info, dict):
        return {k: _plain_info(v) for k, v in info.items()}
    if isinstance(info, (list, tuple)):
        return [_plain_info(v) for v in info]
    return info


def _as_z3_bool(cond):
    from .values import SymBool

    if isinstance(cond, SymBool):
        return cond.e
    if isinstance(cond, bool):
        return z3.BoolVal(cond)
    if z3.is_expr(cond):
        return cond
    raise TypeError(f"not a condition: {type(cond)}")


def explore(
    fn: Callable[[Ctx], Any],
    name: str = "query",
    params: dict | None = None,
    max_paths: int = 100_000,
    max_secs: float = 600.0,
    prefix: list | None = None,
    keep_samples: int = 3,
    split_depth: int | None = None,
) -> QueryResult:
    """Run ``fn`` over every feasible path (re-execution DFS)."""
    global CTX
    res = QueryResult(name=name, params=params or {})
    t0 = time.time()
    deadline = t0 + max_secs
    base = list(prefix or [])
    cur = list(base)
    retry_fresh = False
    while True:
        c = Ctx(cur, deadline)
        c.split_depth = split_depth
        c.incremental = not retry_fresh
        CTX = c
        outcome: Any
        try:
            out = fn(c)
            outcome = ("ok", out)
        except SplitPoint:
            outcome = ("split", None)
        except PathAbort:
            outcome = ("abort", None)
        except Unsupported as e:
            outcome = ("unsupported", str(e))
        except Budget:
            outcome = ("budget", None)
        except EngineSignal as e:  # pragma: no cover
            outcome = ("signal", repr(e))
        except z3.Z3Exception as e:
            if not retry_fresh:
                # an internal error of z3's incremental core (seen: b'unreachable'): re-run this very path
                # with a fresh solver per query
                retry_fresh = True
                CTX = None
                continue
            outcome = ("exc", f"Z3Exception: {str(e)[:120]}")
        except Exception as e:  # escaped the harness: harness decides what that means
            tb = traceback.extract_tb(e.__traceback__)
            where = f"{tb[-1].filename.split('/')[-1]}:{tb[-1].lineno}" if tb else "?"
            outcome = ("exc", f"{type(e).__name__}@{where}: {str(e)[:120]}")
        finally:
            CTX = None
        retry_fresh = False
        if c.fatal is not None and outcome[0] in ("ok", "exc"):
            # an engine signal was raised but swallowed somewhere
            f = c.fatal
            outcome = ("budget", None) if isinstance(f, Budget) else ("unsupported", str(f))
        if outcome[0] == "split":
            res.subprefixes.append([(bool(a), bool(b)) for a, b in c.trace])
            res.solver_calls += c.n_checks
            res.solver_s += c.t_solver
            tr = list(c.trace)
            while len(tr) > len(base) and not (tr[-1][0] is True and tr[-1][1]):
                tr.pop()
            if len(tr) <= len(base):
                res.exhaustive = True
                break
            cur = tr[:-1] + [(False, False)]
            continue
        res.paths += 1
        res.decisions += len(c.trace)
        if c.n_sym_decisions:
            res.sym_paths += 1
        res.solver_calls += c.n_checks
        res.solver_s += c.t_solver
        res.obligations += c.obligations
        res.discharged += c.discharged
        res.sym_obligations += c.sym_obligations
        res.labels.update(c.labels)
        for v in c.violations:
            v.path_index = res.paths - 1
            res.violations.append(v)
        kind = outcome[0]
        if kind == "ok":
            o = outcome[1]
            res.outcomes[str(o)[:160] if not isinstance(o, str) else o[:160]] += 1
        elif kind == "abort":
            res.outcomes["<infeasible>"] += 1
        elif kind in ("unsupported", "signal"):
            res.outcomes["<unsupported>"] += 1
            res.inconclusive.append({"reason": "unsupported", "where": outcome[1][:300]})
        elif kind == "exc":
            res.outcomes["<harness-exc>"] += 1
            res.inconclusive.append({"reason": "harness-exception", "where": outcome[1][:300]})
        if len(res.samples) < keep_samples and c.n_sym_decisions and kind == "ok":
            try:
                m = c.model
                if m is None:
                    _, m = c._check()
                res.samples.append(
                    {
                        "path": res.paths - 1,
                        "path_condition": [str(z3.simplify(p))[:200] for p in c.pc[-6:]],
                        "inputs": c.concretize_inputs(m) if m is not None else None,
                        "outcome": str(outcome[1])[:200],
                    }
                )
            except EngineSignal:
                pass
        if kind == "budget":
            res.inconclusive.append({"reason": "budget", "where": f"{max_secs}s wall"})
            break
        # backtrack: find the deepest decision (beyond base) whose alternative is open
        tr = list(c.trace)
        while len(tr) > len(base) and not (tr[-1][0] is True and tr[-1][1]):
            tr.pop()
        if len(tr) <= len(base):
            res.exhaustive = True
            break
        if res.paths >= max_paths:
            res.inconclusive.append({"reason": "path-cap", "where": f"{max_paths} paths"})
            break
        cur = tr[:-1] + [(False, False)]
    if res.inconclusive:
        res.exhaustive = False
    res.wall_s = time.time() - t0
    return res
