"""Symbolic scalars: SymBool, SymInt (z3 Int or 64-bit BV), SymReal, SymFloat (IEEE double)."""
from __future__ import annotations

import builtins
import fractions
import math

import z3

from . import core
from .core import Cfg, K, Unsupported

_int = builtins.int
_float = builtins.float
_str = builtins.str


def sbool(e):
    """z3 Bool -> python bool when decided by simplification, else SymBool."""
    if isinstance(e, bool):
        return e
    e = core.simplify(e)
    if z3.is_true(e):
        return True
    if z3.is_false(e):
        return False
    return SymBool(e)


class SymBool:
    __slots__ = ("e",)

    def __init__(self, e):
        self.e = e

    def __bool__(self):
        return core.ctx().decide(self.e)

    def _l(self, o):
        if isinstance(o, SymBool):
            return o.e
        if isinstance(o, bool):
            return z3.BoolVal(o)
        return None

    def __and__(self, o):
        b = self._l(o)
        return NotImplemented if b is None else sbool(z3.And(self.e, b))

    __rand__ = __and__

    def __or__(self, o):
        b = self._l(o)
        return NotImplemented if b is None else sbool(z3.Or(self.e, b))

    __ror__ = __or__

    def __eq__(self, o):
        b = self._l(o)
        return False if b is None else sbool(self.e == b)

    def __ne__(self, o):
        b = self._l(o)
        return True if b is None else sbool(self.e != b)

    def neg(self):
        return sbool(z3.Not(self.e))

    __hash__ = None  # type: ignore[assignment]

    def __repr__(self):
        return f"SymBool({self.e})"


def s_not(x):
    if isinstance(x, SymBool):
        return x.neg()
    return not x


def s_and(*xs):
    es = []
    for x in xs:
        if isinstance(x, SymBool):
            es.append(x.e)
        elif not x:
            return False
    return sbool(z3.And(es)) if es else True


def s_or(*xs):
    es = []
    for x in xs:
        if isinstance(x, SymBool):
            es.append(x.e)
        elif x:
            return True
    return sbool(z3.Or(es)) if es else False


def s_implies(a, b):
    return s_or(s_not(a), b)


# ---------------------------------------------------------------------------------------
# integer domain helpers (mode-agnostic)


def is_bv():
    return Cfg.mode == "bv"


def _floordiv(a, d):
    """a // d for z3 numeric a and python/z3 d (d > 0 assumed when symbolic)."""
    if is_bv():
        if isinstance(d, _int):
            if d <= 0:
                raise Unsupported("bv // non-positive")
            d = K(d)
        return z3.If(a >= 0, a / d, (a - (d - 1)) / d)
    if isinstance(d, _int):
        if d == 0:
            raise ZeroDivisionError("integer division or modulo by zero")
        if d < 0:
            return _floordiv(-a, -d)
    return a / d  # z3 Int div: floor for positive divisors


def _mod(a, d):
    if is_bv():
        if isinstance(d, _int):
            if d <= 0:
                raise Unsupported("bv % non-positive")
            d = K(d)
        return a % d  # bvsmod: sign follows divisor == python for d > 0
    if isinstance(d, _int):
        if d == 0:
            raise ZeroDivisionError("integer division or modulo by zero")
        if d < 0:
            raise Unsupported("% negative constant")
    return a % d


def _mask_runs(mask: int):
    """[(lo_bit, nbits)] for each run of ones in mask."""
    runs, i = [], 0
    while mask >> i:
        if (mask >> i) & 1:
            j = i
            while (mask >> j) & 1:
                j += 1
            runs.append((i, j - i))
            i = j
        else:
            i += 1
    return runs


def _and_const(a, mask: int):
    if mask < 0:
        raise Unsupported("& negative constant")
    if is_bv():
        return a & K(mask)
    if mask == 0:
        return K(0)
    total = None
    for lo, n in _mask_runs(mask):
        part = _mod(_floordiv(a, 2**lo), 2**n) * (2**lo) if lo else _mod(a, 2**n)
        total = part if total is None else total + part
    return total


class SymInt:
    __slots__ = ("e",)

    def __init__(self, e):
        self.e = e

    # -- lifting
    @staticmethod
    def lift(x):
        if isinstance(x, SymInt):
            return x.e
        if isinstance(x, bool):
            return K(_int(x))
        if isinstance(x, _int):
            return K(_int(x))
        return None

    def _other(self, o):
        """classify the other operand: ('int', z3) | ('real', SymReal) | ('fp', SymFloat) | None"""
        b = SymInt.lift(o)
        if b is not None:
            return "int", b
        if isinstance(o, _float):
            return ("fp", SymFloat.const(o)) if is_bv() else ("real", SymReal.const(o))
        if isinstance(o, SymReal):
            return "real", o
        if isinstance(o, SymFloat):
            return "fp", o
        return None

    def as_real(self):
        return SymReal(z3.ToReal(self.e))

    def as_fp(self):
        return SymFloat(z3.fpSignedToFP(z3.RNE(), self.e, z3.Float64()))

    def _wide(self):
        return self.as_fp() if is_bv() else self.as_real()

    def _arith(self, o, name, rev=False):
        k = self._other(o)
        if k is None:
            return NotImplemented
        kind, b = k
        if kind == "int":
            a, b2 = (b, self.e) if rev else (self.e, b)
            if name == "add":
                return SymInt(z3.simplify(a + b2))
            if name == "sub":
                return SymInt(z3.simplify(a - b2))
            if name == "mul":
                return SymInt(z3.simplify(a * b2))
        w = self._wide()
        return getattr(w, f"__r{name}__" if rev else f"__{name}__")(b if kind != "int" else o)

    def __add__(self, o):
        return self._arith(o, "add")

    def __radd__(self, o):
        return self._arith(o, "add", True)

    def __sub__(self, o):
        return self._arith(o, "sub")

    def __rsub__(self, o):
        return self._arith(o, "sub", True)

    def __mul__(self, o):
        if isinstance(o, (_str, list, tuple)) and not isinstance(o, SymInt):
            return o * self.__index__()
        return self._arith(o, "mul")

    def __rmul__(self, o):
        if isinstance(o, (_str, list, tuple)):
            return o * self.__index__()
        return self._arith(o, "mul", True)

    def __neg__(self):
        return SymInt(-self.e)

    def __pos__(self):
        return self

    def __abs__(self):
        return SymInt(z3.If(self.e >= 0, self.e, -self.e))

    def __truediv__(self, o):
        k = self._other(o)
        if k is None:
            return NotImplemented
        return self._wide().__truediv__(o)

    def __rtruediv__(self, o):
        k = self._other(o)
        if k is None:
            return NotImplemented
        return self._wide().__rtruediv__(o)

    def _divisor(self, o):
        if isinstance(o, SymInt):
            if sbool(o.e == 0):
                raise ZeroDivisionError("integer division or modulo by zero")
            if sbool(o.e < 0):
                raise Unsupported("division by symbolic negative")
            return o.e
        if isinstance(o, bool):
            o = _int(o)
        if isinstance(o, _int):
            if o == 0:
                raise ZeroDivisionError("integer division or modulo by zero")
            return o
        return None

    def __floordiv__(self, o):
        d = self._divisor(o)
        if d is None:
            k = self._other(o)
            if k is None:
                return NotImplemented
            return self._wide().__floordiv__(o)
        return SymInt(z3.simplify(_floordiv(self.e, d)))

    def __rfloordiv__(self, o):
        if isinstance(o, _int):
            return SymInt(K(o)).__floordiv__(self)
        return NotImplemented

    def __mod__(self, o):
        d = self._divisor(o)
        if d is None:
            k = self._other(o)
            if k is None:
                return NotImplemented
            return self._wide().__mod__(o)
        return SymInt(z3.simplify(_mod(self.e, d)))

    def __rmod__(self, o):
        if isinstance(o, _int) and not isinstance(o, bool):
            return SymInt(K(o)).__mod__(self)
        return NotImplemented

    def __divmod__(self, o):
        return self.__floordiv__(o), self.__mod__(o)

    def __pow__(self, o):
        if isinstance(o, _int) and 0 <= o <= 4:
            r = K(1)
            for _ in range(o):
                r = r * self.e
            return SymInt(r)
        raise Unsupported("** on symbolic int")

    def __rpow__(self, o):
        if isinstance(o, _int):
            return o ** self.__index__()
        raise Unsupported("** symbolic exponent")

    def __lshift__(self, o):
        if isinstance(o, SymInt):
            o = o.__index__()
        if isinstance(o, _int) and o >= 0:
            return SymInt(self.e * (2**o)) if not is_bv() else SymInt(self.e << o)
        return NotImplemented

    def __rlshift__(self, o):
        if isinstance(o, _int):
            return o << self.__index__()
        return NotImplemented

    def __rshift__(self, o):
        if isinstance(o, SymInt):
            o = o.__index__()
        if isinstance(o, _int) and o >= 0:
            if is_bv():
                return SymInt(self.e >> o)
            return SymInt(z3.simplify(_floordiv(self.e, 2**o)))
        return NotImplemented

    def __rrshift__(self, o):
        if isinstance(o, _int):
            return o >> self.__index__()
        return NotImplemented

    def __and__(self, o):
        if isinstance(o, bool):
            o = _int(o)
        if isinstance(o, _int):
            return SymInt(z3.simplify(_and_const(self.e, o)))
        if isinstance(o, SymInt):
            if is_bv():
                return SymInt(self.e & o.e)
            return _bitop_via_bv(self, o, lambda a, b: a & b)
        return NotImplemented

    __rand__ = __and__

    def __or__(self, o):
        if isinstance(o, bool):
            o = _int(o)
        if isinstance(o, _int):
            if is_bv():
                return SymInt(self.e | K(o))
            return SymInt(z3.simplify(self.e + K(o) - _and_const(self.e, o)))
        if isinstance(o, SymInt):
            if is_bv():
                return SymInt(self.e | o.e)
            return _bitop_via_bv(self, o, lambda a, b: a | b)
        return NotImplemented

    __ror__ = __or__

    def __xor__(self, o):
        if isinstance(o, bool):
            o = _int(o)
        if isinstance(o, _int):
            if is_bv():
                return SymInt(self.e ^ K(o))
            return SymInt(z3.simplify(self.e + K(o) - 2 * _and_const(self.e, o)))
        if isinstance(o, SymInt) and is_bv():
            return SymInt(self.e ^ o.e)
        if isinstance(o, SymInt):
            return _bitop_via_bv(self, o, lambda a, b: a ^ b)
        raise Unsupported("^ with a non-integer")

    __rxor__ = __xor__

    def __invert__(self):
        return SymInt(-self.e - 1)

    # -- comparisons
    def _cmp(self, o, op):
        k = self._other(o)
        if k is None:
            if op == "eq":
                return False
            if op == "ne":
                return True
            return NotImplemented
        kind, b = k
        if kind == "int":
            a = self.e
            return sbool(
                {"lt": a < b, "le": a <= b, "gt": a > b, "ge": a >= b, "eq": a == b, "ne": a != b}[op]
            )
        return getattr(self._wide(), f"__{op}__")(b)

    def __lt__(self, o):
        return self._cmp(o, "lt")

    def __le__(self, o):
        return self._cmp(o, "le")

    def __gt__(self, o):
        return self._cmp(o, "gt")

    def __ge__(self, o):
        return self._cmp(o, "ge")

    def __eq__(self, o):
        return self._cmp(o, "eq")

    def __ne__(self, o):
        return self._cmp(o, "ne")

    def __hash__(self):
        return hash(self.__index__())

    def __bool__(self):
        return bool(sbool(self.e != 0))

    # -- concretisation (forks over the feasible values)
    def __index__(self):
        c = core.ctx()
        e = z3.simplify(self.e)
        if z3.is_int_value(e):
            return e.as_long()
        if z3.is_bv_value(e):
            return e.as_signed_long()
        n = 0
        while True:
            c._ensure_model()
            v = c.model.eval(e, model_completion=True)
            val = v.as_signed_long() if z3.is_bv_value(v) else v.as_long()
            if c.decide(e == K(val)):
                self.e = K(val)
                return val
            n += 1
            if n > 300:
                raise Unsupported("concretising a symbolic int with > 300 values")

    def __int__(self):
        return self.__index__()

    def __trunc__(self):
        return self

    def __round__(self, n=None):
        return self

    def __float__(self):
        raise Unsupported("float() of symbolic int reached C code")

    def __format__(self, spec):
        from .strings import mk

        return mk(fmt_int_cells(self, spec))

    def __str__(self):
        return self.__format__("")

    def __repr__(self):
        return self.__format__("")


def _bitop_via_bv(a: "SymInt", b: "SymInt", op):
    """bitwise op of two symbolic non-negative ints (Int mode) through 64-bit vectors"""
    if not bool(sbool(z3.And(a.e >= 0, b.e >= 0, a.e < 2**62, b.e < 2**62))):
        raise Unsupported("bitwise op on symbolic ints that may be negative / huge")
    return SymInt(z3.BV2Int(op(z3.Int2BV(a.e, 64), z3.Int2BV(b.e, 64)), False))


def _digit_char(d, upper=True):
    return z3.If(d <= 9, d + 48, d + (55 if upper else 87))


def _udivmod(v, p, base):
    if is_bv():
        return z3.URem(z3.UDiv(v, K(p)), K(base))
    return (v / p) % base


def fmt_int_cells(val: SymInt, spec: str):
    """Cells for format(val, spec) for the format specs the code base uses."""
    import re as _re

    m = _re.fullmatch(r"(?:(.)?([<>^=]))?([+\- ])?(#)?(0)?(\d+)?([dXxb])?", spec or "")
    if not m:
        raise Unsupported(f"format spec {spec!r} on symbolic int")
    fill, align, sign, alt, zero, width, typ = m.groups()
    if alt or sign:
        raise Unsupported(f"format spec {spec!r} on symbolic int")
    width = _int(width or 0)
    typ = typ or "d"
    base = {"d": 10, "X": 16, "x": 16, "b": 2}[typ]
    if zero and not fill:
        fill, align = "0", (align or "=")
    fill = fill or " "
    align = align or ">"
    v = val.e
    neg = bool(sbool(v < 0))
    if neg:
        v = -v
    # number of digits: avoid forking when the width is always enough
    n = None
    c = core.ctx()
    if width and not neg:
        ok, _ = c.sat(v >= base**width)
        if not ok:
            n = width if fill == "0" and align in ("=", ">") else None
    if n is None:
        n = 1
        while not bool(sbool(v < base**n)):
            n += 1
            if n > 40:
                raise Unsupported("formatting a huge symbolic int")
    digits = [_digit_char(_udivmod(v, base**i, base), typ != "x") for i in reversed(range(n))]
    digits = [z3.simplify(d) for d in digits]
    body = (["-"] if neg else []) + digits
    pad = max(0, width - len(body))
    if pad:
        if align == "=":
            body = (["-"] if neg else []) + [fill] * pad + digits
        elif align == ">":
            body = [fill] * pad + body
        elif align == "<":
            body = body + [fill] * pad
        else:
            body = [fill] * (pad // 2) + body + [fill] * (pad - pad // 2)
    return body


# ---------------------------------------------------------------------------------------


def _rv(x):
    """python number -> z3 Real constant (floats by their shortest decimal repr)."""
    if isinstance(x, bool):
        return z3.RealVal(_int(x))
    if isinstance(x, _int):
        return z3.RealVal(x)
    if isinstance(x, _float):
        if math.isinf(x) or math.isnan(x):
            raise Unsupported("inf/nan in real arithmetic")
        return z3.RealVal(repr(x))
    if isinstance(x, fractions.Fraction):
        return z3.RealVal(_str(x))
    return None


class SymReal:
    """Exact rational/real arithmetic (used for time and for range reasoning).

    NB: python floats are *abstracted* as reals here; properties about floating-point
    exactness are decided with SymFloat (bv mode) instead."""

    __slots__ = ("e",)

    def __init__(self, e):
        self.e = e

    @staticmethod
    def const(x):
        return SymReal(_rv(x))

    @staticmethod
    def lift(x):
        if isinstance(x, SymReal):
            return x.e
        if isinstance(x, SymInt):
            if is_bv():
                raise Unsupported("SymReal with bv int")
            return z3.ToReal(x.e)
        return _rv(x)

    def _bin(self, o, f, rev=False):
        b = SymReal.lift(o)
        if b is None:
            return NotImplemented
        return SymReal(z3.simplify(f(b, self.e) if rev else f(self.e, b)))

    def __add__(self, o):
        return self._bin(o, lambda a, b: a + b)

    __radd__ = __add__

    def __sub__(self, o):
        return self._bin(o, lambda a, b: a - b)

    def __rsub__(self, o):
        return self._bin(o, lambda a, b: a - b, True)

    def __mul__(self, o):
        return self._bin(o, lambda a, b: a * b)

    __rmul__ = __mul__

    def _nz(self, b):
        if bool(sbool(b == 0)):
            raise ZeroDivisionError("float division by zero")

    def __truediv__(self, o):
        b = SymReal.lift(o)
        if b is None:
            return NotImplemented
        self._nz(b)
        return SymReal(z3.simplify(self.e / b))

    def __rtruediv__(self, o):
        b = SymReal.lift(o)
        if b is None:
            return NotImplemented
        self._nz(self.e)
        return SymReal(z3.simplify(b / self.e))

    def __floordiv__(self, o):
        b = SymReal.lift(o)
        if b is None:
            return NotImplemented
        self._nz(b)
        return SymReal(z3.ToReal(z3.ToInt(self.e / b)))

    def __mod__(self, o):
        b = SymReal.lift(o)
        if b is None:
            return NotImplemented
        self._nz(b)
        return SymReal(self.e - b * z3.ToReal(z3.ToInt(self.e / b)))

    def __neg__(self):
        return SymReal(-self.e)

    def __pos__(self):
        return self

    def __abs__(self):
        return SymReal(z3.If(self.e >= 0, self.e, -self.e))

    def _cmp(self, o, op):
        b = SymReal.lift(o)
        if b is None:
            if op == "eq":
                return False
            if op == "ne":
                return True
            return NotImplemented
        a = self.e
        return sbool({"lt": a < b, "le": a <= b, "gt": a > b, "ge": a >= b, "eq": a == b, "ne": a != b}[op])

    def __lt__(self, o):
        return self._cmp(o, "lt")

    def __le__(self, o):
        return self._cmp(o, "le")

    def __gt__(self, o):
        return self._cmp(o, "gt")

    def __ge__(self, o):
        return self._cmp(o, "ge")

    def __eq__(self, o):
        return self._cmp(o, "eq")

    def __ne__(self, o):
        return self._cmp(o, "ne")

    __hash__ = None  # type: ignore[assignment]

    def __bool__(self):
        return bool(sbool(self.e != 0))

    def trunc(self) -> SymInt:
        e = self.e
        return SymInt(z3.simplify(z3.If(e >= 0, z3.ToInt(e), -z3.ToInt(-e))))

    def floor(self) -> SymInt:
        return SymInt(z3.ToInt(self.e))

    def __trunc__(self):
        return self.trunc()

    def __floor__(self):
        return self.floor()

    def __ceil__(self):
        return SymInt(-z3.ToInt(-self.e))

    def __round__(self, n=None):
        if n is None or n == 0:
            f = z3.ToInt(self.e)
            r = self.e - z3.ToReal(f)
            half = z3.RealVal("1/2")
            i = SymInt(z3.simplify(z3.If(r < half, f, z3.If(r > half, f + 1, z3.If(f % 2 == 0, f, f + 1)))))
            return i if n is None else i.as_real()
        if isinstance(n, _int):
            s = 10**n if n > 0 else fractions.Fraction(1, 10 ** (-n))
            return (self * s).__round__(0) / s
        raise Unsupported("round(x, symbolic)")

    def is_integer(self):
        return sbool(z3.IsInt(self.e))

    def __float__(self):
        raise Unsupported("float() of symbolic real reached C code")

    def __format__(self, spec):
        from .strings import tainted

        return tainted(f"<real:{spec}>")

    def __str__(self):
        return self.__format__("")

    __repr__ = __str__


FP = z3.Float64()
RNE = z3.RNE()
RTZ = z3.RTZ()


class SymFloat:
    """IEEE-754 binary64 with round-to-nearest-even (bit-exact model of CPython float)."""

    __slots__ = ("e",)

    def __init__(self, e):
        self.e = e

    @staticmethod
    def const(x):
        return SymFloat(z3.FPVal(_float(x), FP))

    @staticmethod
    def lift(x):
        if isinstance(x, SymFloat):
            return x.e
        if isinstance(x, SymInt):
            if not is_bv():
                raise Unsupported("SymFloat with Int-mode integer")
            return z3.fpSignedToFP(RNE, x.e, FP)
        if isinstance(x, bool):
            return z3.FPVal(_float(x), FP)
        if isinstance(x, (_int, _float)):
            return z3.FPVal(_float(x), FP)
        return None

    def _bin(self, o, f, rev=False):
        b = SymFloat.lift(o)
        if b is None:
            return NotImplemented
        return SymFloat(f(b, self.e) if rev else f(self.e, b))

    def __add__(self, o):
        return self._bin(o, lambda a, b: z3.fpAdd(RNE, a, b))

    __radd__ = __add__

    def __sub__(self, o):
        return self._bin(o, lambda a, b: z3.fpSub(RNE, a, b))

    def __rsub__(self, o):
        return self._bin(o, lambda a, b: z3.fpSub(RNE, a, b), True)

    def __mul__(self, o):
        return self._bin(o, lambda a, b: z3.fpMul(RNE, a, b))

    __rmul__ = __mul__

    def __truediv__(self, o):
        b = SymFloat.lift(o)
        if b is None:
            return NotImplemented
        if bool(sbool(z3.fpIsZero(b))):
            raise ZeroDivisionError("float division by zero")
        return SymFloat(z3.fpDiv(RNE, self.e, b))

    def __rtruediv__(self, o):
        b = SymFloat.lift(o)
        if b is None:
            return NotImplemented
        if bool(sbool(z3.fpIsZero(self.e))):
            raise ZeroDivisionError("float division by zero")
        return SymFloat(z3.fpDiv(RNE, b, self.e))

    def __neg__(self):
        return SymFloat(z3.fpNeg(self.e))

    def __abs__(self):
        return SymFloat(z3.fpAbs(self.e))

    def _cmp(self, o, op):
        b = SymFloat.lift(o)
        if b is None:
            if op == "eq":
                return False
            if op == "ne":
                return True
            return NotImplemented
        a = self.e
        return sbool(
            {
                "lt": z3.fpLT(a, b),
                "le": z3.fpLEQ(a, b),
                "gt": z3.fpGT(a, b),
                "ge": z3.fpGEQ(a, b),
                "eq": z3.fpEQ(a, b),
                "ne": z3.Not(z3.fpEQ(a, b)),
            }[op]
        )

    def __lt__(self, o):
        return self._cmp(o, "lt")

    def __le__(self, o):
        return self._cmp(o, "le")

    def __gt__(self, o):
        return self._cmp(o, "gt")

    def __ge__(self, o):
        return self._cmp(o, "ge")

    def __eq__(self, o):
        return self._cmp(o, "eq")

    def __ne__(self, o):
        return self._cmp(o, "ne")

    __hash__ = None  # type: ignore[assignment]

    def __bool__(self):
        return bool(sbool(z3.Not(z3.fpIsZero(self.e))))

    def _finite_in_range(self):
        lim = z3.FPVal(2.0**62, FP)
        ok = z3.And(z3.Not(z3.fpIsNaN(self.e)), z3.Not(z3.fpIsInf(self.e)), z3.fpLT(z3.fpAbs(self.e), lim))
        if not bool(sbool(ok)):
            raise Unsupported("int() of float outside +-2**62 / nan / inf")

    def trunc(self) -> SymInt:
        self._finite_in_range()
        return SymInt(z3.fpToSBV(RTZ, self.e, z3.BitVecSort(Cfg.bv_width)))

    def __trunc__(self):
        return self.trunc()

    def __round__(self, n=None):
        if n is None:
            self._finite_in_range()
            return SymInt(z3.fpToSBV(RNE, self.e, z3.BitVecSort(Cfg.bv_width)))
        if isinstance(n, _int) and 0 <= n <= 6:
            # CPython rounds the exact binary value half-even to n decimals and returns the nearest double.
            # Done in binary128: x * 10^n is exact there (53 + 20 bits < 113), roundToIntegral sees exact ties,
            # and the quotient's distance from any double midpoint (>= 2^-80 relative) rules out double rounding.
            q = z3.FPSort(15, 113)
            y = z3.fpMul(RNE, z3.fpFPToFP(RNE, self.e, q), z3.FPVal(10**n, q))
            z = z3.fpDiv(RNE, z3.fpRoundToIntegral(RNE, y), z3.FPVal(10**n, q))
            return SymFloat(z3.fpFPToFP(RNE, z, FP))
        raise Unsupported("round(float, n) in FP mode")

    def __float__(self):
        raise Unsupported("float() of symbolic float reached C code")

    def __format__(self, spec):
        from .strings import tainted

        return tainted(f"<float:{spec}>")

    def __str__(self):
        return self.__format__("")

    __repr__ = __str__


NUMERIC = (SymInt, SymReal, SymFloat)


# ---------------------------------------------------------------------------------------
# builtin replacements (installed as module globals by the instrumenting loader)


def sx_int(x=0, base=None):
    from .strings import SymStr, str_to_int

    if isinstance(x, SymStr):
        return str_to_int(x, 10 if base is None else base)
    if isinstance(x, SymInt):
        return x
    if isinstance(x, (SymReal, SymFloat)):
        return x.trunc()
    if isinstance(x, SymBool):
        return SymInt(z3.If(x.e, K(1), K(0)))
    return _int(x) if base is None else _int(x, base)


def sx_float(x=0.0):
    from .strings import SymStr

    if isinstance(x, SymInt):
        return x._wide()
    if isinstance(x, (SymReal, SymFloat)):
        return x
    if isinstance(x, SymStr):
        raise Unsupported("float(symbolic str)")
    return _float(x)


def sx_round(x, n=None):
    if isinstance(x, NUMERIC):
        return x.__round__(n)
    return builtins.round(x) if n is None else builtins.round(x, n)


def sx_divmod(a, b):
    if isinstance(a, NUMERIC) or isinstance(b, NUMERIC):
        return a // b, a % b
    return builtins.divmod(a, b)


def sx_abs(x):
    return abs(x)


def sx_min(*a, **k):
    return builtins.min(*a, **k)


class _IntMeta(type):
    def __instancecheck__(cls, x):
        return isinstance(x, (_int, SymInt))

    def __subclasscheck__(cls, c):
        return issubclass(c, _int)

    def __call__(cls, *a, **k):
        return sx_int(*a, **k)



class SxInt(_int, metaclass=_IntMeta):
    from_bytes = _int.from_bytes


class _FloatMeta(type):
    def __instancecheck__(cls, x):
        return isinstance(x, (_float, SymReal, SymFloat))

    def __subclasscheck__(cls, c):
        return issubclass(c, _float)

    def __call__(cls, *a, **k):
        return sx_float(*a, **k)



class SxFloat(_float, metaclass=_FloatMeta):
    pass


class _BoolMeta(type):
    def __instancecheck__(cls, x):
        return isinstance(x, (bool, SymBool))

    def __subclasscheck__(cls, c):
        return c is bool

    def __call__(cls, *a, **k):
        return builtins.bool(*a, **k)



class SxBool(metaclass=_BoolMeta):
    pass


# ---------------------------------------------------------------------------------------


def concretize(obj, model):
    """Symbolic object -> plain python value under ``model`` (for counterexamples)."""
    from .strings import SymStr

    if isinstance(obj, SymStr):
        return obj.under(model)
    if isinstance(obj, SymBool):
        return z3.is_true(model.eval(obj.e, model_completion=True))
    if isinstance(obj, SymInt):
        v = model.eval(obj.e, model_completion=True)
        return v.as_signed_long() if z3.is_bv_value(v) else v.as_long()
    if isinstance(obj, SymReal):
        v = model.eval(obj.e, model_completion=True)
        if z3.is_rational_value(v):
            fr = fractions.Fraction(v.numerator_as_long(), v.denominator_as_long())
            if fr.denominator == 1:
                return fr.numerator
            return {"num": fr.numerator, "den": fr.denominator, "approx": _float(fr)}
        return _str(v)
    if isinstance(obj, SymFloat):
        v = model.eval(obj.e, model_completion=True)
        return fp_value(v)
    if isinstance(obj, dict):
        return {k: concretize(v, model) for k, v in obj.items()}
    if isinstance(obj, (list, tuple)):
        return [concretize(v, model) for v in obj]
    if hasattr(obj, "__sx_concretize__"):
        return obj.__sx_concretize__(model)
    if isinstance(obj, (_str, _int, _float, bool)) or obj is None:
        return obj
    return repr(obj)


def fp_value(v) -> float:
    if z3.is_fp_value(v) or hasattr(v, "isNaN"):
        if v.isNaN():
            return math.nan
        if v.isInf():
            return -math.inf if v.isNegative() else math.inf
        if v.isZero():
            return -0.0 if v.isNegative() else 0.0
        sign = -1.0 if v.sign() else 1.0
        sig = fractions.Fraction(v.significand_as_long(), 2 ** (FP.sbits() - 1))
        if v.isSubnormal():
            return sign * _float(sig * fractions.Fraction(2) ** (2 - 2 ** (FP.ebits() - 1)))
        exp = v.exponent_as_long(biased=False)
        return sign * _float((1 + sig) * fractions.Fraction(2) ** exp)
    return _float(_str(v))
