"""symx - a small z3-backed concolic executor for the Python subset ramses_rf uses."""
from .core import CTX, Cfg, Ctx, EngineSignal, PathAbort, QueryResult, Unsupported, explore, K  # noqa: F401
from .values import SymBool, SymInt, SymReal, SymFloat, sbool, s_and, s_or, s_not, s_implies  # noqa: F401
from .strings import SymStr, mk, cells  # noqa: F401
from .api import *  # noqa: F401,F403
