"""Replay counterexamples with the *plain* interpreter on the *uninstrumented* package.

usage: python -m symx.replay checks.cXX batch.json   -> prints 'REPLAY-RESULTS <json list>'"""
from __future__ import annotations

import importlib
import json
import logging
import os
import sys
import traceback


def main():
    modname, path = sys.argv[1], sys.argv[2]
    src_root = os.environ.get("SYMX_SRC_ROOT", "/repo/src")
    sys.dont_write_bytecode = True
    sys.path.insert(0, src_root)
    logging.disable(logging.CRITICAL)
    mod = importlib.import_module(modname)
    items = json.load(open(path))
    out = []
    for it in items:
        try:
            r = mod.replay(it)
            if not isinstance(r, dict):
                r = {"reproduced": bool(r), "observed": str(r), "signature": None}
        except BaseException as e:  # noqa: BLE001
            r = {"reproduced": False, "observed": f"replay raised {type(e).__name__}: {e} {traceback.format_exc()[-400:]}", "signature": None, "runner_error": True}
        out.append(r)
    print("REPLAY-RESULTS " + json.dumps(out, default=str))


if __name__ == "__main__":
    main()
