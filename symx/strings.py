"""Symbolic strings of concrete length (a ``str`` subclass), symbolic regex matching, and the
runtime helpers the instrumented source calls (``_sx_rt_.*``)."""
from __future__ import annotations

import builtins
import itertools
import re
import re._constants as sc
import re._parser as sre_parse

import z3

from . import core
from .core import K, Unsupported
from .values import SymBool, SymInt, SymReal, SymFloat, NUMERIC, sbool, s_not, is_bv

_ids = itertools.count()
POISON = "\ue000"
_str = builtins.str
_int = builtins.int


def _cp(c):
    """cell -> z3 numeric code point"""
    return K(ord(c)) if isinstance(c, _str) else c


def mk(chars):
    """Real str when all cells are concrete, else SymStr."""
    chars = list(chars)
    for c in chars:
        if not isinstance(c, _str):
            return SymStr(chars)
    return "".join(chars)


def cells(s):
    if isinstance(s, SymStr):
        return s.chars
    if isinstance(s, _str):
        return list(s)
    raise Unsupported(f"cells({type(s).__name__})")


def is_sym(x):
    return isinstance(x, SymStr)


class Tainted(_str):
    """A string that stands for the textual rendering of a symbolic number (only ever
    built for log / error messages).  Any semantic use is Unsupported."""

    def __new__(cls, what):
        self = super().__new__(cls, f"{POISON}T{next(_ids)}{POISON}")
        self.what = what
        return self

    def _bad(self, *a, **k):
        raise Unsupported(f"semantic use of a rendered symbolic number {self.what}")

    __eq__ = __ne__ = __lt__ = __le__ = __gt__ = __ge__ = __contains__ = __getitem__ = _bad
    __iter__ = __len__ = split = strip = _bad

    def __hash__(self):
        self._bad()

    def __bool__(self):
        return True  # the rendering of a number is never empty

    def __format__(self, spec):
        return self

    def __str__(self):
        return self

    def __repr__(self):
        return self

    def __add__(self, o):
        return self

    def __radd__(self, o):
        return self


def tainted(what):
    return Tainted(what)


def _truthy(r):
    return r is True or (r is not False and bool(r))


def _cell_eq(a, b):
    if isinstance(a, _str) and isinstance(b, _str):
        return z3.BoolVal(a == b)
    return _cp(a) == _cp(b)


def _eq_cells(ac, bc):
    if len(ac) != len(bc):
        return False
    conj = []
    for a, b in zip(ac, bc):
        if isinstance(a, _str) and isinstance(b, _str):
            if a != b:
                return False
            continue
        conj.append(_cp(a) == _cp(b))
    if not conj:
        return True
    return sbool(z3.And(conj))


def _isspace_cond(c):
    if isinstance(c, _str):
        return z3.BoolVal(c.isspace())
    return z3.Or(c == 32, z3.And(c >= 9, c <= 13), z3.And(c >= 28, c <= 31), c == 0x85, c == 0xA0)


class SymStr(_str):
    """A str whose characters are cells: a concrete 1-char str or a z3 code point."""

    def __new__(cls, chars):
        self = super().__new__(cls, f"{POISON}{next(_ids)}{POISON}")
        self.chars = list(chars)
        return self

    # -- structure
    def __len__(self):
        return len(self.chars)

    def __getitem__(self, k):
        if isinstance(k, slice):
            if any(isinstance(x, SymInt) for x in (k.start, k.stop, k.step)):
                k = slice(*(x.__index__() if isinstance(x, SymInt) else x for x in (k.start, k.stop, k.step)))
            return mk(self.chars[k])
        if isinstance(k, SymInt):
            k = k.__index__()
        return mk([self.chars[k]])

    def __iter__(self):
        return (mk([c]) for c in self.chars)

    def __reversed__(self):
        return (mk([c]) for c in reversed(self.chars))

    def __add__(self, o):
        if isinstance(o, Tainted):
            return o
        if not isinstance(o, _str):
            return NotImplemented
        return mk(self.chars + cells(o))

    def __radd__(self, o):
        if isinstance(o, Tainted):
            return o
        if not isinstance(o, _str):
            return NotImplemented
        return mk(cells(o) + self.chars)

    def __mul__(self, n):
        if isinstance(n, SymInt):
            n = n.__index__()
        return mk(self.chars * n)

    __rmul__ = __mul__

    # -- comparison
    def __eq__(self, o):
        if isinstance(o, Tainted):
            o._bad()
        if not isinstance(o, _str):
            return False
        return _eq_cells(self.chars, cells(o))

    def __ne__(self, o):
        return s_not(self.__eq__(o))

    def _order(self, o, strict, less):
        """lexicographic comparison as one formula"""
        if not isinstance(o, _str):
            return NotImplemented
        a, b = self.chars, cells(o)
        if not less:
            a, b = b, a
        # a < b (strict) or a <= b
        res = z3.BoolVal(len(a) < len(b) if strict else len(a) <= len(b))
        for x, y in reversed(list(zip(a, b))):
            res = z3.Or(_cp(x) < _cp(y), z3.And(_cp(x) == _cp(y), res))
        return sbool(res)

    def __lt__(self, o):
        return self._order(o, True, True)

    def __le__(self, o):
        return self._order(o, False, True)

    def __gt__(self, o):
        return self._order(o, True, False)

    def __ge__(self, o):
        return self._order(o, False, False)

    def __hash__(self):
        return hash(self.concretize())

    def __bool__(self):
        return len(self.chars) > 0

    def under(self, model) -> str:
        out = []
        for c in self.chars:
            if isinstance(c, _str):
                out.append(c)
            else:
                v = model.eval(c, model_completion=True)
                n = v.as_long()
                out.append(chr(n) if 0 <= n < 0x110000 else "?")
        return "".join(out)

    def concretize(self) -> str:
        """Pin to one feasible value; the other values are explored on other paths."""
        c = core.ctx()
        n = 0
        while True:
            c._ensure_model()
            val = self.under(c.model)
            r = self.__eq__(val)
            if r is True or (r is not False and bool(r)):
                self.chars = list(val)
                return val
            n += 1
            if n > 600:
                raise Unsupported("concretising a symbolic str with > 600 values")

    def __contains__(self, o):
        if not isinstance(o, _str):
            raise TypeError("'in <string>' requires string as left operand")
        oc = cells(o)
        n = len(oc)
        if n == 0:
            return True
        alts = []
        for i in range(len(self.chars) - n + 1):
            r = _eq_cells(self.chars[i : i + n], oc)
            if r is True:
                return True
            if r is not False:
                alts.append(r.e)
        return sbool(z3.Or(alts)) if alts else False

    def _find(self, sep, start=0, end=None):
        sc_ = cells(sep)
        n = len(sc_)
        end = len(self.chars) if end is None else end
        for i in range(start, end - n + 1):
            r = _eq_cells(self.chars[i : i + n], sc_)
            if r is True or (r is not False and bool(r)):  # may fork
                return i
        return -1

    def find(self, sub, start=0, end=None):
        return self._find(sub, start, end)

    def index(self, sub, start=0, end=None):
        i = self._find(sub, start, end)
        if i < 0:
            raise ValueError("substring not found")
        return i

    def count(self, sub):
        n, start = 0, 0
        while True:
            i = self._find(sub, start)
            if i < 0:
                return n
            n += 1
            start = i + max(1, len(sub))

    def split(self, sep=None, maxsplit=-1):
        if sep is None:
            return self._split_ws(maxsplit)
        if len(sep) == 0:
            raise ValueError("empty separator")
        out, start = [], 0
        while True:
            if maxsplit >= 0 and len(out) >= maxsplit:
                break
            i = self._find(sep, start)
            if i < 0:
                break
            out.append(mk(self.chars[start:i]))
            start = i + len(sep)
        out.append(mk(self.chars[start:]))
        return out

    def _split_ws(self, maxsplit=-1):
        if maxsplit >= 0:
            raise Unsupported("split(None, maxsplit)")
        out, cur = [], []
        for c in self.chars:
            sp = sbool(_isspace_cond(c))
            if sp is True or (sp is not False and bool(sp)):
                if cur:
                    out.append(mk(cur))
                    cur = []
            else:
                cur.append(c)
        if cur:
            out.append(mk(cur))
        return out

    def rsplit(self, sep=None, maxsplit=-1):
        if maxsplit < 0:
            return self.split(sep)
        raise Unsupported("rsplit(maxsplit)")

    def splitlines(self, keepends=False):
        raise Unsupported("splitlines")

    def partition(self, sep):
        i = self._find(sep)
        if i < 0:
            return (self, "", "")
        return (mk(self.chars[:i]), sep, mk(self.chars[i + len(sep) :]))

    def rpartition(self, sep):
        n = len(sep)
        for i in range(len(self.chars) - n, -1, -1):
            r = _eq_cells(self.chars[i : i + n], cells(sep))
            if r is True or (r is not False and bool(r)):
                return (mk(self.chars[:i]), sep, mk(self.chars[i + n :]))
        return ("", "", self)

    def _strip_pred(self, ch):
        if ch is None:
            return lambda c: sbool(_isspace_cond(c))
        chs = cells(ch)
        return lambda c: sbool(z3.Or([_cell_eq(c, x) for x in chs])) if chs else False

    def lstrip(self, ch=None):
        p = self._strip_pred(ch)
        i = 0
        while i < len(self.chars):
            r = p(self.chars[i])
            if not (r is True or (r is not False and bool(r))):
                break
            i += 1
        return mk(self.chars[i:])

    def rstrip(self, ch=None):
        p = self._strip_pred(ch)
        j = len(self.chars)
        while j > 0:
            r = p(self.chars[j - 1])
            if not (r is True or (r is not False and bool(r))):
                break
            j -= 1
        return mk(self.chars[:j])

    def strip(self, ch=None):
        r = self.lstrip(ch)
        return r.rstrip(ch) if isinstance(r, SymStr) else (r.strip() if ch is None else r.strip(ch))

    def removeprefix(self, p):
        return self[len(p) :] if self.startswith(p) else self

    def removesuffix(self, p):
        return self[: len(self) - len(p)] if p and self.endswith(p) else self

    def replace(self, old, new, count=-1):
        if len(old) == 0:
            raise Unsupported("replace('')")
        out, start, n = [], 0, 0
        while True:
            if count >= 0 and n >= count:
                break
            i = self._find(old, start)
            if i < 0:
                break
            out += self.chars[start:i] + cells(new)
            start = i + len(old)
            n += 1
        out += self.chars[start:]
        return mk(out)

    def startswith(self, p, start=0, end=None):
        if isinstance(p, tuple):
            for q in p:
                r = self.startswith(q, start, end)
                if r is True or (r is not False and bool(r)):
                    return True
            return False
        sub = self.chars[start:end]
        pc = cells(p)
        if len(pc) > len(sub):
            return False
        return _eq_cells(sub[: len(pc)], pc)

    def endswith(self, p, start=0, end=None):
        if isinstance(p, tuple):
            for q in p:
                r = self.endswith(q, start, end)
                if r is True or (r is not False and bool(r)):
                    return True
            return False
        sub = self.chars[start:end]
        pc = cells(p)
        if len(pc) > len(sub):
            return False
        return _eq_cells(sub[len(sub) - len(pc) :], pc) if pc else True

    def _all(self, pred):
        if not self.chars:
            return False
        return sbool(z3.And([pred(_cp(c)) for c in self.chars]))

    def isnumeric(self):
        return self._all(lambda c: z3.And(c >= 48, c <= 57))  # ASCII bound (claimed)

    isdigit = isnumeric
    isdecimal = isnumeric

    def isalpha(self):
        return self._all(lambda c: z3.Or(z3.And(c >= 65, c <= 90), z3.And(c >= 97, c <= 122)))

    def isalnum(self):
        return self._all(
            lambda c: z3.Or(z3.And(c >= 48, c <= 57), z3.And(c >= 65, c <= 90), z3.And(c >= 97, c <= 122))
        )

    def isspace(self):
        return self._all(lambda c: _isspace_cond(c))

    def isupper(self):
        raise Unsupported("isupper")

    def isascii(self):
        return self._all(lambda c: c < 128) if self.chars else True

    def isprintable(self):
        return self._all(lambda c: z3.And(c >= 32, c < 127)) if self.chars else True

    def upper(self):
        out = []
        for c in self.chars:
            if isinstance(c, _str):
                out.append(c.upper())
                continue
            nib = _NIBBLES.get(c.get_id())
            if nib is not None:  # a hex digit rendered from a symbolic byte: re-render in upper case
                out.append(_nibble_cell(nib[1], nib[2], True))
            else:
                out.append(z3.If(z3.And(c >= 97, c <= 122), c - 32, c))
        return mk(out)

    def lower(self):
        return mk(
            [c.lower() if isinstance(c, _str) else z3.If(z3.And(c >= 65, c <= 90), c + 32, c) for c in self.chars]
        )

    def zfill(self, w):
        return mk(["0"] * max(0, w - len(self.chars)) + self.chars)

    def ljust(self, w, fill=" "):
        return mk(self.chars + [fill] * max(0, w - len(self.chars)))

    def rjust(self, w, fill=" "):
        return mk([fill] * max(0, w - len(self.chars)) + self.chars)

    def center(self, w, fill=" "):
        return self.__format__(f"{fill}^{w}")

    def join(self, it):
        return sx_join(self, it)

    def encode(self, *a, **k):
        raise Unsupported("str.encode on symbolic str")

    def format(self, *a, **k):
        raise Unsupported("str.format with symbolic template")

    def __mod__(self, o):
        raise Unsupported("% with symbolic template")

    def __str__(self):
        return self

    def __repr__(self):
        return self

    def __format__(self, spec):
        if not spec:
            return self
        m = re.fullmatch(r"(?:(.)?([<>^]))?(\d+)?s?", spec)
        if not m:
            raise Unsupported(f"format spec {spec!r} on symbolic str")
        fill, align, width = m.groups()
        fill, align, width = fill or " ", align or "<", _int(width or 0)
        pad = max(0, width - len(self.chars))
        if align == "<":
            return mk(self.chars + [fill] * pad)
        if align == ">":
            return mk([fill] * pad + self.chars)
        return mk([fill] * (pad // 2) + self.chars + [fill] * (pad - pad // 2))

    def __sx_concretize__(self, model):
        return self.under(model)


def _unsupported_method(name):
    def f(self, *a, **k):
        raise Unsupported(f"str.{name} on symbolic str")

    f.__name__ = name
    return f


for _n in dir(_str):
    if _n.startswith("__") or _n in SymStr.__dict__:
        continue
    setattr(SymStr, _n, _unsupported_method(_n))


# ---------------------------------------------------------------------------------------
# int(str, base)


def hexval(c):
    c = _cp(c)
    ok = z3.Or(z3.And(c >= 48, c <= 57), z3.And(c >= 65, c <= 70), z3.And(c >= 97, c <= 102))
    v = z3.If(c <= 57, c - 48, z3.If(c <= 70, c - 55, c - 87))
    return ok, v


def str_to_int(x: SymStr, base: int) -> SymInt:
    if base not in (10, 16, 2):
        raise Unsupported(f"int(sym, {base})")
    if not x.chars:
        raise ValueError("invalid literal for int() with base %d: ''" % base)
    digits = "0123456789abcdef"[:base]
    oks, odd = [], []
    acc = 0  # python int while only concrete digits were seen, then a z3 term
    for c in x.chars:
        if isinstance(c, _str):
            d = digits.find(c.lower()) if len(c) == 1 else -1
            if d < 0:
                if c in "+-_" or c.isspace():
                    raise Unsupported("int() of a partly symbolic str with sign/underscore/whitespace")
                raise ValueError(f"invalid literal for int() with base {base}")
            acc = acc * base + d
            continue
        cc = c
        if base == 16:
            ok, v = hexval(c)
        elif base == 10:
            ok, v = z3.And(cc >= 48, cc <= 57), cc - 48
        else:
            ok, v = z3.And(cc >= 48, cc <= 49), cc - 48
        oks.append(ok)
        acc = (K(acc) if isinstance(acc, _int) else acc) * base + v
        # characters python's int() tolerates in some positions: sign, '_', whitespace
        odd.append(z3.Or(cc == 43, cc == 45, cc == 95, _isspace_cond(cc)))
    if not oks:
        return acc
    if bool(sbool(z3.And(oks))):
        return SymInt(z3.simplify(acc))
    # not all plain digits: either invalid, or one of python's tolerated forms
    if bool(sbool(z3.Or(odd))):
        raise Unsupported("int() of a symbolic str that may contain sign/underscore/whitespace")
    raise ValueError(f"invalid literal for int() with base {base}")


# ---------------------------------------------------------------------------------------
# regex on fixed-length symbolic strings


def _in_class(items, c):
    alts, neg = [], False
    for op, av in items:
        if op is sc.NEGATE:
            neg = True
        elif op is sc.LITERAL:
            alts.append(c == av)
        elif op is sc.RANGE:
            alts.append(z3.And(c >= av[0], c <= av[1]))
        elif op is sc.CATEGORY:
            if av is sc.CATEGORY_DIGIT:
                alts.append(z3.And(c >= 48, c <= 57))  # ASCII bound
            elif av is sc.CATEGORY_NOT_DIGIT:
                alts.append(z3.Not(z3.And(c >= 48, c <= 57)))
            elif av is sc.CATEGORY_SPACE:
                alts.append(_isspace_cond(c))
            elif av is sc.CATEGORY_NOT_SPACE:
                alts.append(z3.Not(_isspace_cond(c)))
            elif av is sc.CATEGORY_WORD:
                alts.append(z3.Or(z3.And(c >= 48, c <= 57), z3.And(c >= 65, c <= 90), z3.And(c >= 97, c <= 122), c == 95))
            else:
                raise Unsupported(f"regex category {av}")
        else:
            raise Unsupported(f"regex class item {op}")
    e = z3.Or(alts) if alts else z3.BoolVal(False)
    return z3.Not(e) if neg else e


def _in_class_concrete(items, o):
    """membership of a concrete code point in a regex class (mirrors _in_class)"""
    hit, neg = False, False
    for op, av in items:
        if op is sc.NEGATE:
            neg = True
        elif op is sc.LITERAL:
            hit = hit or o == av
        elif op is sc.RANGE:
            hit = hit or av[0] <= o <= av[1]
        elif op is sc.CATEGORY:
            ch = chr(o)
            if av is sc.CATEGORY_DIGIT:
                hit = hit or 48 <= o <= 57
            elif av is sc.CATEGORY_NOT_DIGIT:
                hit = hit or not (48 <= o <= 57)
            elif av is sc.CATEGORY_SPACE:
                hit = hit or ch.isspace()
            elif av is sc.CATEGORY_NOT_SPACE:
                hit = hit or not ch.isspace()
            elif av is sc.CATEGORY_WORD:
                hit = hit or (48 <= o <= 57) or (65 <= o <= 90) or (97 <= o <= 122) or o == 95
            else:
                raise Unsupported(f"regex category {av}")
        else:
            raise Unsupported(f"regex class item {op}")
    return (not hit) if neg else hit


def _c_and(c, d):
    if c is True:
        return d
    if d is True:
        return c
    return z3.And(c, d)


def _c_or(c, d):
    if c is True or d is True:
        return True
    return z3.Or(c, d)


def _m(nodes, chars, starts, flags=0):
    """position-set simulation: starts {pos: cond} -> {pos: cond} after the node sequence.
    A condition is ``True`` or a z3 Bool (concrete prefixes never build z3 terms)."""
    n = len(chars)
    cur = starts
    for op, av in nodes:
        nxt: dict = {}

        def add(p, c):
            nxt[p] = _c_or(nxt[p], c) if p in nxt else c

        if op is sc.LITERAL:
            for p, c in cur.items():
                if p < n:
                    ch = chars[p]
                    if isinstance(ch, _str):
                        if ord(ch) == av:
                            add(p + 1, c)
                    else:
                        add(p + 1, _c_and(c, ch == av))
        elif op is sc.NOT_LITERAL:
            for p, c in cur.items():
                if p < n:
                    ch = chars[p]
                    if isinstance(ch, _str):
                        if ord(ch) != av:
                            add(p + 1, c)
                    else:
                        add(p + 1, _c_and(c, ch != av))
        elif op is sc.ANY:
            for p, c in cur.items():
                if p < n:
                    ch = chars[p]
                    if isinstance(ch, _str):
                        if ch != "\n" or (flags & re.DOTALL):
                            add(p + 1, c)
                    else:
                        add(p + 1, _c_and(c, ch != 10) if not (flags & re.DOTALL) else c)
        elif op is sc.IN:
            for p, c in cur.items():
                if p < n:
                    ch = chars[p]
                    if isinstance(ch, _str):
                        if _in_class_concrete(av, ord(ch)):
                            add(p + 1, c)
                        continue
                    cond = z3.simplify(_in_class(av, ch))
                    if z3.is_false(cond):
                        continue
                    add(p + 1, c if z3.is_true(cond) else _c_and(c, cond))
        elif op is sc.AT:
            if av in (sc.AT_BEGINNING, sc.AT_BEGINNING_STRING):
                for p, c in cur.items():
                    if p == 0:
                        add(p, c)
            elif av in (sc.AT_END, sc.AT_END_STRING):
                for p, c in cur.items():
                    if p == n:
                        add(p, c)
                    elif p == n - 1 and av is sc.AT_END:
                        ch = chars[p]  # '$' also matches before a trailing newline
                        if isinstance(ch, _str):
                            if ch == "\n":
                                add(p, c)
                        else:
                            add(p, _c_and(c, ch == 10))
            else:
                raise Unsupported(f"regex AT {av}")
        elif op is sc.SUBPATTERN:
            for p, c in _m(list(av[3]), chars, cur, flags).items():
                add(p, c)
        elif op is sc.BRANCH:
            for alt in av[1]:
                for p, c in _m(list(alt), chars, cur, flags).items():
                    add(p, c)
        elif op in (sc.MAX_REPEAT, sc.MIN_REPEAT, getattr(sc, "POSSESSIVE_REPEAT", None)):
            lo, hi, sub = av
            level = cur
            k = 0
            if lo == 0:
                for p, c in level.items():
                    add(p, c)
            limit = n + 1 if hi is sc.MAXREPEAT else hi
            while k < limit:
                level = _m(list(sub), chars, level, flags)
                k += 1
                if not level:
                    break
                if k >= lo:
                    for p, c in level.items():
                        add(p, c)
        else:
            raise Unsupported(f"regex op {op}")
        cur = nxt
        if not cur:
            break
    return cur


_RE_CACHE: dict = {}


def re_match_cond(pattern: str, s, kind="match", flags=0):
    """Condition under which ``re.<kind>(pattern, s)`` is not None."""
    chars = cells(s)
    key = (pattern, flags)
    tree = _RE_CACHE.get(key)
    if tree is None:
        tree = _RE_CACHE[key] = sre_parse.parse(pattern, flags)
    if tree.state.flags & (re.IGNORECASE | re.MULTILINE | re.VERBOSE) & ~re.UNICODE:
        raise Unsupported("regex flags")
    starts = {0: True}
    if kind == "search":
        starts = {i: True for i in range(len(chars) + 1)}
    ends = _m(list(tree), chars, starts, tree.state.flags)
    conds = [c for p, c in ends.items() if (kind != "fullmatch" or p == len(chars))]
    if any(c is True for c in conds):
        return True
    return sbool(z3.Or(conds)) if conds else False


class FakeMatch:
    """Truthiness-only match object (groups are Unsupported)."""

    def __init__(self, s):
        self.string = s

    def __bool__(self):
        return True

    def __getattr__(self, name):
        raise Unsupported(f"match.{name} on a symbolic subject")


def _re_sub_symbolic(pattern, repl, subject, kwargs):
    """re.sub with a symbolic subject: only what the code base needs"""
    if kwargs:
        raise Unsupported("re.sub with keywords on a symbolic subject")
    if pattern == "(00)*$" and repl == "":  # strip trailing '00' pairs (parser_10e0)
        cs = list(subject.chars)
        while len(cs) >= 2:
            r = _eq_cells(cs[-2:], ["0", "0"])
            if not _truthy(r):
                break
            cs = cs[:-2]
        return mk(cs)
    hit = re_match_cond(pattern, subject, "search")
    if hit is False or (hit is not True and not bool(hit)):
        return subject  # pattern cannot occur: unchanged
    raise Unsupported(f"re.sub({pattern!r}) on a symbolic subject")


def sx_re_call(kind, recv, args, kwargs):
    if kind in ("sub", "subn", "findall", "finditer"):
        if recv is re and len(args) >= 3 and isinstance(args[2], (SymStr, Tainted)):
            if kind == "sub" and isinstance(args[2], SymStr) and len(args) == 3:
                return _re_sub_symbolic(args[0], args[1], args[2], kwargs)
            raise Unsupported(f"re.{kind} on a symbolic subject")
        if isinstance(recv, re.Pattern) and len(args) >= 1 and isinstance(args[-1], (SymStr, Tainted)):
            if kind == "sub" and len(args) == 2 and isinstance(args[1], SymStr):
                return _re_sub_symbolic(recv.pattern, args[0], args[1], kwargs)
            raise Unsupported(f"Pattern.{kind} on a symbolic subject")
        return getattr(recv, kind)(*args, **kwargs)
    if isinstance(recv, re.Pattern):
        if args and isinstance(args[0], SymStr):
            if kind not in ("match", "fullmatch", "search") or len(args) > 1 or kwargs:
                raise Unsupported(f"Pattern.{kind} with symbolic subject")
            r = re_match_cond(recv.pattern, args[0], kind, recv.flags & ~re.UNICODE)
            return FakeMatch(args[0]) if r else None
        if args and isinstance(args[0], Tainted):
            args[0]._bad()
    elif recv is re:
        if len(args) >= 2 and isinstance(args[1], SymStr):
            if kind not in ("match", "fullmatch", "search"):
                raise Unsupported(f"re.{kind} with symbolic subject")
            r = re_match_cond(args[0], args[1], kind)
            return FakeMatch(args[1]) if r else None
    return getattr(recv, kind)(*args, **kwargs)


# ---------------------------------------------------------------------------------------
# runtime helpers for rewritten syntax


def sx_eq(a, b, negate=False):
    if isinstance(a, SymStr):
        r = a.__eq__(b)
    elif isinstance(b, SymStr):
        r = b.__eq__(a)
    elif isinstance(a, Tainted) or isinstance(b, Tainted):
        (a if isinstance(a, Tainted) else b)._bad()
    else:
        return (a != b) if negate else (a == b)
    return s_not(r) if negate else r


def _sym_key_candidates(container, item):
    n = len(item)
    for k in container:
        if isinstance(k, _str) and not isinstance(k, Tainted) and len(k) == n:
            yield k


def sx_contains(container, item, negate=False):
    r = _contains(container, item)
    return s_not(r) if negate else r


def _contains(container, item):
    if isinstance(item, Tainted) or isinstance(container, Tainted):
        (item if isinstance(item, Tainted) else container)._bad()
    if hasattr(container, "__sx_contains__"):
        return container.__sx_contains__(item)
    if type(container).__name__ in ("dict_values", "dict_keys", "odict_values", "odict_keys"):
        container = list(container)
    if isinstance(container, SymStr):
        return container.__contains__(item)
    if isinstance(item, SymStr):
        if isinstance(container, _str):
            return SymStr(list(container)).__contains__(item) if len(item) <= len(container) else False
        if isinstance(container, (dict, set, frozenset, tuple, list)) or type(container).__name__ in ("dict_keys", "mappingproxy"):
            alts = []
            for k in _sym_key_candidates(container, item):
                r = item.__eq__(k)
                if r is True:
                    return True
                if r is not False:
                    alts.append(r.e)
            return sbool(z3.Or(alts)) if alts else False
        return item in container
    if isinstance(item, SymInt):
        if isinstance(container, range):
            lo, hi, st = container.start, container.stop, container.step
            if st > 0:
                c = z3.And(item.e >= lo, item.e < hi)
                if st != 1:
                    c = z3.And(c, (item.e - lo) % st == 0)
                return sbool(c)
            raise Unsupported("in range with negative step")
        if isinstance(container, (dict, set, frozenset, tuple, list)):
            alts = []
            for k in container:
                if isinstance(k, (_int, SymInt)) and not isinstance(k, bool):
                    r = item.__eq__(k)
                    if r is True:
                        return True
                    if r is not False:
                        alts.append(r.e)
                elif isinstance(k, float) and k == _int(k):
                    alts.append(item.e == _int(k))
            return sbool(z3.Or(alts)) if alts else False
    if isinstance(item, (SymReal, SymFloat)):
        if isinstance(container, range):
            if isinstance(item, SymFloat):
                raise Unsupported("float in range (fp mode)")
            lo, hi, st = container.start, container.stop, container.step
            c = z3.And(z3.IsInt(item.e), item.e >= lo, item.e < hi)
            if st != 1:
                c = z3.And(c, (z3.ToInt(item.e) - lo) % st == 0)
            return sbool(c)
        if isinstance(container, (tuple, list, set, frozenset)):
            alts = [item.__eq__(k) for k in container if isinstance(k, (_int, float, *NUMERIC))]
            from .values import s_or

            return s_or(*alts) if alts else False
    if hasattr(container, "__sx_contains__"):
        return container.__sx_contains__(item)
    return item in container


def sx_getitem(obj, key):
    if hasattr(obj, "__sx_getitem__"):
        return obj.__sx_getitem__(key)
    if isinstance(key, SymStr):
        if isinstance(obj, dict) or type(obj).__name__ == "mappingproxy":
            for k in _sym_key_candidates(obj, key):
                if _truthy(key.__eq__(k)):
                    key.chars = list(k)
                    return obj[k]
            raise KeyError(key)
    elif isinstance(key, SymInt):
        if isinstance(obj, dict):
            alts = [k for k in obj if isinstance(k, _int) and not isinstance(k, bool)]
            if alts and _truthy(sbool(z3.Or([key.e == k for k in alts]))):
                return obj[key.__index__()]
            raise KeyError(key)
        if isinstance(obj, (list, tuple, _str, range)):
            return obj[key.__index__()]
    elif isinstance(key, Tainted):
        key._bad()
    return obj[key]


def sx_get(recv, args, kwargs):
    if hasattr(recv, "__sx_getitem__"):
        return recv.get(*args, **kwargs)
    if (isinstance(recv, dict) or type(recv).__name__ == "mappingproxy") and args and not kwargs:
        k = args[0]
        if isinstance(k, (SymStr, SymInt)):
            try:
                return sx_getitem(recv, k)
            except KeyError:
                return args[1] if len(args) > 1 else None
        if isinstance(k, Tainted):
            k._bad()
    return recv.get(*args, **kwargs)


def sx_join(sep, it):
    items = list(it)
    if isinstance(sep, (bytes, bytearray)):
        if any(isinstance(i, SymBytes) for i in items):
            out = SymBytes()
            for k, i in enumerate(items):
                if k:
                    out.extend(list(sep))
                out.extend(list(i))
            return out
        return sep.join(items)
    if not isinstance(sep, (SymStr, Tainted)) and not any(isinstance(i, (SymStr, Tainted)) for i in items):
        return sep.join(items)
    out = []
    for k, i in enumerate(items):
        if isinstance(i, Tainted):
            return i
        if not isinstance(i, _str):
            raise TypeError(f"sequence item {k}: expected str instance, {type(i).__name__} found")
        if k:
            out += cells(sep)
        out += cells(i)
    return mk(out)


def sx_format(fmt, args, kwargs):
    """``fmt.format(*args, **kwargs)`` with symbolic arguments (plain replacement fields only)"""
    import string

    if isinstance(fmt, SymStr):
        return fmt.format(*args, **kwargs)
    if not isinstance(fmt, _str) or not (any(isinstance(a, (SymStr, Tainted, SymBool, *NUMERIC)) for a in args) or any(isinstance(a, (SymStr, Tainted, SymBool, *NUMERIC)) for a in kwargs.values())):
        return fmt.format(*args, **kwargs)
    out, auto = [], 0
    for lit, field, spec, conv in string.Formatter().parse(fmt):
        out += list(lit)
        if field is None:
            continue
        if field == "":
            val = args[auto]
            auto += 1
        elif field.isdigit():
            val = args[_int(field)]
        elif field in kwargs:
            val = kwargs[field]
        else:
            raise Unsupported(f"format field {field!r}")
        if "{" in (spec or ""):
            raise Unsupported("nested format spec")
        r = sx_format_value(val, ord(conv) if conv else None, spec or "")
        if isinstance(r, Tainted):
            return r
        out += cells(r)
    return mk(out)


def sx_format_value(val, conv, spec):
    if conv == ord("r"):
        val = repr(val)
    elif conv == ord("s"):
        val = sx_str(val)
    elif conv == ord("a"):
        val = ascii(val)
    if isinstance(spec, (SymStr, Tainted)):
        raise Unsupported("symbolic format spec")
    return format(val, spec)


def sx_fstr(parts):
    out = []
    taint = None
    for p in parts:
        if isinstance(p, tuple):
            r = sx_format_value(*p)
            if isinstance(r, Tainted):
                taint = r
            elif taint is None:
                out += cells(r)
        elif taint is None:
            out += list(p)
    if taint is not None:
        return taint
    return mk(out)


def sx_str(x="", *a, **k):
    if a or k:
        return _str(x, *a, **k)
    if isinstance(x, (SymStr, Tainted)):
        return x
    if isinstance(x, NUMERIC):
        return x.__str__()
    if isinstance(x, SymBool):
        return "True" if x else "False"
    return _str(x)


def sx_mod(a, b):
    """``a % b`` (string formatting when a is a str)."""
    if isinstance(a, _str) and not isinstance(a, SymStr):
        args = b if isinstance(b, tuple) else (b,)
        if any(isinstance(x, (SymStr, Tainted, *NUMERIC)) for x in args):
            # only the trivial %s/%d/%r templates are supported
            pieces = re.split(r"(%[sdr])", a)
            it = iter(args)
            out = []
            for pc in pieces:
                if pc in ("%s", "%d", "%r"):
                    v = next(it)
                    r = sx_str(v) if pc != "%r" else repr(v)
                    if isinstance(r, Tainted):
                        return r
                    out += cells(r)
                else:
                    if "%" in pc.replace("%%", ""):
                        raise Unsupported(f"%-format template {a!r}")
                    out += list(pc.replace("%%", "%"))
            return mk(out)
    return a % b


def sx_ord(c):
    if isinstance(c, SymStr):
        if len(c.chars) != 1:
            raise TypeError(f"ord() expected a character, but string of length {len(c.chars)} found")
        x = c.chars[0]
        return ord(x) if isinstance(x, _str) else SymInt(x)
    return ord(c)


def sx_chr(i):
    if isinstance(i, SymInt):
        if not bool(sbool(z3.And(i.e >= 0, i.e < 0x110000))):
            raise ValueError("chr() arg not in range(0x110000)")
        return SymStr([i.e])
    return chr(i)


_NIBBLES: dict = {}  # z3 ast id of a hex-digit cell -> (cell, byte term, 'hi'|'lo', upper?) (keeps the cell alive)


def _nibble_cell(byte, which, upper):
    """the hex-digit cell of one nibble of a symbolic byte (registered so that fromhex can invert it structurally)"""
    v = byte / 16 if which == "hi" else byte % 16
    cell = z3.If(v < 10, v + 48, v + (55 if upper else 87))
    _NIBBLES[cell.get_id()] = (cell, byte, which, upper)
    return cell


def sx_hex_bytes(s):
    """bytes.fromhex / bytearray.fromhex on a symbolic str -> SymBytes"""
    cs = cells(s)
    if len(cs) % 2 == 0 and cs:
        # fast path: every pair is a concrete hex pair or the (hi, lo) rendering of one symbolic byte
        vals = []
        for i in range(0, len(cs), 2):
            a, b = cs[i], cs[i + 1]
            if isinstance(a, _str) and isinstance(b, _str) and a in "0123456789abcdefABCDEF" and b in "0123456789abcdefABCDEF":
                vals.append(_int(a + b, 16))
                continue
            if not isinstance(a, _str) and not isinstance(b, _str):
                na, nb = _NIBBLES.get(a.get_id()), _NIBBLES.get(b.get_id())
                if na is not None and nb is not None and na[2] == "hi" and nb[2] == "lo" and na[1].get_id() == nb[1].get_id():
                    vals.append(SymInt(na[1]))
                    continue
            vals = None
            break
        if vals is not None:
            return SymBytes(vals)
    # python skips ASCII whitespace between bytes; symbolic input: only plain hex supported
    if len(cs) % 2:
        if bool(sbool(z3.And([hexval(c)[0] for c in cs]))):
            raise ValueError("non-hexadecimal number found in fromhex() arg")
        raise Unsupported("fromhex with possible whitespace")
    vals = []
    oks = []
    for i in range(0, len(cs), 2):
        ok1, v1 = hexval(cs[i])
        ok2, v2 = hexval(cs[i + 1])
        oks += [ok1, ok2]
        vals.append(SymInt(z3.simplify(v1 * 16 + v2)))
    if not bool(sbool(z3.And(oks))):
        ws = z3.Or([_isspace_cond(_cp(c)) for c in cs])
        if bool(sbool(ws)):
            raise Unsupported("fromhex with possible whitespace")
        raise ValueError("non-hexadecimal number found in fromhex() arg")
    return SymBytes(vals)


class SymBytes(list):
    """list of byte values (int | SymInt) standing in for bytes/bytearray"""

    def decode(self, enc="utf-8", errors="strict"):
        if enc.lower().replace("-", "") not in ("ascii", "utf8", "latin1"):
            raise Unsupported(f"decode({enc})")
        out = []
        for b in self:
            if isinstance(b, SymInt):
                if enc.lower() == "ascii" or enc.lower().replace("-", "") == "utf8":
                    if not bool(sbool(b.e < 128)):
                        if enc.lower() == "ascii":
                            raise UnicodeDecodeError("ascii", b"", 0, 1, "ordinal not in range(128)")
                        raise Unsupported("utf-8 decode of non-ascii symbolic byte")
                out.append(b.e)
            else:
                if b >= 128 and enc.lower() == "ascii":
                    raise UnicodeDecodeError("ascii", b"", 0, 1, "ordinal not in range(128)")
                out.append(chr(b))
        return mk(out)

    def hex(self):
        out = []
        for b in self:
            if isinstance(b, SymInt):
                e = z3.simplify(b.e)
                if z3.is_int_value(e):
                    out += list(format(e.as_long(), "02x"))
                else:
                    out += [_nibble_cell(e, "hi", False), _nibble_cell(e, "lo", False)]
            else:
                out += list(format(b, "02x"))
        return mk(out)

    def __getitem__(self, k):
        r = list.__getitem__(self, k)
        return SymBytes(r) if isinstance(k, slice) else r

    def __add__(self, o):
        if isinstance(o, (bytes, bytearray, list)):
            return SymBytes(list(self) + list(o))
        return NotImplemented

    def __radd__(self, o):
        if isinstance(o, (bytes, bytearray, list)):
            return SymBytes(list(o) + list(self))
        return NotImplemented


class _BytesLikeMeta(type):
    def __instancecheck__(cls, x):
        return isinstance(x, (cls._real, SymBytes))

    def __call__(cls, *a, **k):
        if a and isinstance(a[0], SymBytes):
            return a[0]
        if a and isinstance(a[0], list) and any(isinstance(x, SymInt) for x in a[0]):
            return SymBytes(a[0])
        if a and isinstance(a[0], (SymStr,)):
            raise Unsupported("bytes(symbolic str)")
        return cls._real(*a, **k)


class SxByteArray(metaclass=_BytesLikeMeta):
    _real = bytearray

    @staticmethod
    def fromhex(s):
        if isinstance(s, SymStr):
            return sx_hex_bytes(s)
        return bytearray.fromhex(s)


class SxBytes(metaclass=_BytesLikeMeta):
    _real = bytes

    @staticmethod
    def fromhex(s):
        if isinstance(s, SymStr):
            return sx_hex_bytes(s)
        return bytes.fromhex(s)

    maketrans = bytes.maketrans


class _StrMeta(type):
    def __instancecheck__(cls, x):
        return isinstance(x, _str)

    def __subclasscheck__(cls, c):
        return issubclass(c, _str)

    def __call__(cls, *a, **k):
        return sx_str(*a, **k)


class SxStr(_str, metaclass=_StrMeta):
    maketrans = _str.maketrans


def _mk_disp(name):
    def disp(self, *a, **k):
        if isinstance(self, (SymStr, Tainted)):
            return getattr(self, name)(*a, **k)
        return getattr(_str, name)(self, *a, **k)

    return staticmethod(disp)


for _n in (
    "strip lstrip rstrip upper lower split rsplit partition rpartition startswith endswith join replace "
    "isnumeric isdigit isalpha isalnum isspace zfill ljust rjust find index count format encode title capitalize"
).split():
    setattr(SxStr, _n, _mk_disp(_n))
