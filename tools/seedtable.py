#!/usr/bin/env python3
"""Print the markdown table of seeded changes (from seeded/*/meta.json) - used for DESIGN.md 7.4."""
import glob, json, os

HERE = os.path.dirname(os.path.dirname(os.path.abspath(__file__)))
rows, tot, hit = [], 0, 0
for d in sorted(glob.glob(os.path.join(HERE, "seeded", "*"))):
    try:
        m = json.load(open(os.path.join(d, "meta.json")))
    except Exception:
        continue
    sid = os.path.basename(d)
    runs = m.get("checks_run", {})
    det = sorted(k.split(":")[0] for k, v in runs.items() if v.get("rc") == 1 and v.get("violations", 0) > 0)
    err = sorted(k.split(":")[0] for k, v in runs.items() if v.get("rc") == 2 or (v.get("rc") == 1 and not v.get("violations", 0)))
    ran = sorted(k.split(":")[0] for k in runs)
    conf = m.get("confirmation", {}).get("confirmed")
    tot += 1
    hit += bool(det)
    what = (m.get("summary") or "").replace("|", "/").replace("\n", " ")[:150]
    res = ("**" + ", ".join(det) + "**") if det else ("exit 2: " + ", ".join(err) if err else "missed")
    rows.append(f"| {sid} | {m.get('property')} | {what} | {', '.join(ran)} | {res} | {'yes' if conf else ('no' if conf is False else '-')} |")
print(f"{hit} of {tot} seeded changes are reported as VIOLATION by a quick-tier check.\n")
print("| seed | property | change | checks run | reported by | confirmed |")
print("|---|---|---|---|---|---|")
print("\n".join(rows))
