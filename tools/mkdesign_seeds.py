#!/usr/bin/env python3
"""Insert the current seed table into DESIGN.md (between the SEEDTABLE markers)."""
import os, re, subprocess
HERE = os.path.dirname(os.path.dirname(os.path.abspath(__file__)))
tab = subprocess.run(["python3", os.path.join(HERE, "tools", "seedtable.py")], capture_output=True, text=True).stdout
p = os.path.join(HERE, "DESIGN.md")
s = open(p).read()
block = "<!-- SEEDTABLE-BEGIN -->\n" + tab + "<!-- SEEDTABLE-END -->"
if "<!-- SEEDTABLE-BEGIN -->" in s:
    s = re.sub(r"<!-- SEEDTABLE-BEGIN -->.*?<!-- SEEDTABLE-END -->", lambda m: block, s, flags=re.S)
else:
    s = s.replace("SEEDTABLE", "\n\n" + block, 1)
open(p, "w").write(s)
