#!/usr/bin/env python3
"""Regenerate MANIFEST.json from the table below (python3 tools/gen_manifest.py)."""
import json, os

HERE = os.path.dirname(os.path.dirname(os.path.abspath(__file__)))
TECH = "solver-based: symbolic execution of the real source (symx concolic engine, z3 per-path obligations; counterexamples replayed on the plain package)"

CLAIMED = {
    "C04": dict(
        text="Every codec pair is executed symbolically over the whole wire word (16/8/24 bit) and over the value grid; floating-point kernels use z3's IEEE-754 theory (bit-exact CPython semantics), so the verdict covers every word/grid value inside the stated bounds, not a sample. Packed fault-log time stamps are also round-tripped from the decoder's own text form (all 100 year fields, strptime's %y pivot modelled), and a decoded flag list is edited and the byte decoded again (the decoder hands out fresh objects).",
        note="Trusted: z3's FP/BV theories, the SymDateTime (Gregorian) and struct byte-layout stubs (differentially tested by selfcheck), symx itself. Out-of-range id wrap is a recorded known finding.",
        design="4/C04"),
}
CLAIMED.update({
    "C10": dict(
        text="The real filter predicate, the receive and send gates and the device-creation filter run with the membership of every id in known/block list as free solver Booleans, the enforcement flag, the gateway choice and the direction symbolic; each path's outcome is compared with an independent formula of the statement. Because memberships are free Booleans the verdict holds for lists of any size. Device creation is checked in both directions (never for a non-allowed id, never refused for an allowed one - the active gateway before its own device exists included) and select_device_filter_mode over symbolic list contents.",
        note="Trusted: z3, symx, the reference predicate transcribed from the statement. The dispatcher's device creation from addresses is outside (needs a live gateway). A block-listed active gateway still getting a Device is a recorded known finding.",
        design="4/C10"),
    "C19": dict(
        text="One inductive step of the real FaultLog code from an arbitrary symbolic pre-state (any newest-first map over any controller log, symbolic time stamps) for any admissible message re-establishes the invariant that *is* the property (newest-first, hence no duplicates; only reported entries; views do not raise), so histories of any length are covered; read-through and announcement clauses are multi-step symbolic queries.",
        note="Trusted: z3, symx; time stamps are modelled as integers order-isomorphic to the fixed-width text; log depth bounded (N+2, N<=4 quick / 6 thorough); get_faultlog's request loop is covered by C06/C07, not here.",
        design="4/C19"),
})
_FSM_NOTE = "Trusted: z3 (linear real arithmetic), symx and its virtual-time loop (the real asyncio Task/Future/wait_for run on it), the stub transport. Bounds: delivery budget k (2 quick / 3 thorough) per episode, <= 3 concurrent callers, one fault per episode; arrival delays in [0,10] s. Outside: impersonation notice, buffer overflow, real threads."
CLAIMED.update({
    "C07": dict(
        text="The real send path (PortProtocol.send_cmd -> ProtocolContext FSM -> state classes, asyncio timers and wait_for) runs under a virtual clock with every echo/reply arrival time a solver real and every loss, duplicate, stray packet, write failure, disconnect and the caller's timeout a solver variable; on each explored path (= a zone of the schedule space) the solver proves the call ended, with its own echo/reply or a ProtocolError, within min(timeout, 20 s).",
        note=_FSM_NOTE, design="4/C07-C09"),
    "C08": dict(
        text="Same symbolic-schedule exploration of the real FSM; per path the solver proves: transmissions <= 1+min(max_retries,3), == that when retries are exhausted, fewer only if the caller's timeout fired, exact 0.5/1/2/4 s doubling when nothing is answered, no transmission after the answer, never two commands in flight, first transmissions in (priority, call order).",
        note=_FSM_NOTE, design="4/C07-C09"),
    "C09": dict(
        text="Same exploration; after quiescence on every path: state idle/inactive, the FSM's own is_sending consistency check passes, nothing in flight, no exception reached the loop's exception handler, every caller answered, and a probe command to a responsive device succeeds.",
        note=_FSM_NOTE + " Re-binding a transport after a disconnect (reconnect) is a recorded known finding.", design="4/C07-C09"),
})
CLAIMED.update({
    "C20": dict(
        text="Two real BindContext objects (supplicant, respondent) are cross-wired through a stub ether on the virtual-time loop; per frame copy loss is a solver Boolean and arrival time a solver real, RF repeats arrive in the same read or later, a third-party offer, an absent side and failing sends are solver choices. Per path: both attempts end with the tuple or a BindingError, loss-free and prompt exchanges succeed on both sides with identical frames, nobody is left binding, the loop's exception handler stays empty, and a fresh attempt succeeds.",
        note="Trusted: z3, symx, the stub devices replicating Fakeable._async_send_cmd/_handle_msg and the dispatcher's 1FC9 routing. Bounds: the 4 supported flows, <=1 repeat (quick) / 2 (thorough), 6-8 symbolic delays per episode. A failing send leaving the context binding is a recorded known finding.",
        design="4/C20"),
})
_DEC_NOTE = "Trusted: z3, symx (regex simulator, symbolic strings; differentially validated against the plain package on the repository's 3.2k logged frames by ./vcheck selfcheck). Bounds: symbolic part = whole payloads up to 4 (quick) / 6 (thorough) bytes with symbolic device types, every 2-byte (thorough: also 3-byte) window of logged payloads, every truncation of a logged payload, one header field at a time, all combinations of the address fields over a 6-id alphabet; bytes outside the window keep their logged value."
CLAIMED.update({
    "C01": dict(
        text="The real Packet factories, Message(pkt), _frame_read, FileTransport._reader, _pkt_received and PortTransport._read_ready run on lines/buffers with symbolic parts; per path the solver shows that only the invalid-packet error (or ValueError from the factory) can leave the decode path, that a replay delivers the lines after a bad one, and - one inductive step from an arbitrary CRLF-free buffer and an arbitrary chunk, every byte symbolic - that the lines emitted are exactly the CRLF split of the bytes received, which makes delivery independent of the read partition for streams of any length.",
        note=_DEC_NOTE + " Read partitioning: |buffer| <= 3 (5), |chunk| <= 4 (6) bytes, all 256 byte values, plus one 840-byte read of 14 frames on a symbolic buffer tail. The serial receive path proper (the sync-cycle tracker around PortTransport._pkt_read) is fed a corrupted/truncated frame followed by a good one.", design="4/C01"),
    "C02": dict(
        text="Frame/Packet/Command construction and printing run on frames whose eight fields are all symbolic (verb selector, sequence digits, every address digit in the three legal shapes, code, length digits, 2n payload characters, RSSI, annotation texts); per path the solver shows printed text == input text cell for cell, fields preserved, length field == byte count, _from_attrs/from_attrs/from_cli print the long form, and the replayer's [:26]/[27:] slicing returns an equal packet with the same time stamp.",
        note="Trusted: z3, symx. Bounds: payload n in {1,2,3,8,24,48} (thorough 1..48); annotations <= 4 (6) printable characters without the separator characters. The writer side of the packet log (logging %-formatting and dt.fromtimestamp are C code) cannot be symbolic: for the symbolic queries the log line is composed in the harness as _Logger.makeRecord/PKT_LOG_FMT compose it, and one query runs the real writer and the real replayer on selector-chosen concrete time stamps (incl. whole seconds).",
        design="4/C02"),
    "C05": dict(
        text="Packet + Message + the per-code parser run on symbolic payloads (whole short payloads for every verb/code with symbolic device types, every 2-byte window of logged payloads, arrays with all or one element symbolic, under the announce-to-self and the addressed form; and every logged frame decoded concretely with all caches live); whenever a path decodes, the solver shows for every input of the path: plain-JSON types only, a second decode after unrelated decodes is cell-for-cell equal, reported zone/domain/dhw/ufh indexes equal the frame characters at the index position, array entry i equals element i decoded as its own frame, ratios in [0,1], temperatures inside the wire range.",
        note=_DEC_NOTE + " Indexes the code derives from a zone type/role (0005, 000C, 0404, 0418, 3220, 1FC9) are outside the index clause.", design="4/C05"),
})
CLAIMED.update({
    "C06": dict(
        text="The real matching code (IsInIdle.cmd_sent with the gateway-id substitution, WantEcho.pkt_rcvd, WantRply.pkt_rcvd over pkt_header/_ctx/_idx/_pkt_idx and Command.tx_header/rx_header) runs on requests taken from the logs and built by 25 public constructors, with the context characters/arguments and the gateway's six id digits symbolic; per path the solver shows the substituted echo leaves the echo wait, the reply of an independently modelled conforming device (same context positions, other payload characters symbolic) is returned as the result, a reply that arrives after a retransmission but before the new echo is still recognised, and packets differing in exactly one of code/verb/device/context (for 0404: zone index, schedule kind DHW/zone, fragment number) are taken for neither.",
        note="Trusted: z3, symx, the recording stand-in for ProtocolContext, the independent context-position table. Bounds: one (thorough: 3) logged request per (verb, code, length); 8 (16) further reply characters symbolic; 1FC9 is under C20.", design="4/C06"),
})
CLAIMED.update({
    "C03": dict(
        text="Every constructor of CODE_API_MAP is called with symbolic arguments over its documented domain and a margin around it (indexes -2..300 / hex text, temperatures k/100 over about twice the domain, percent grid, mode x until x duration selectors, Gregorian date-time fields, symbolic names, all msg ids, fragment numbers/counts 0..255) and the result is decoded by the real Message._from_cmd; per path the solver shows verb|code is the registered key, the decoder accepts the frame, and every decoded field with an argument counterpart equals the argument - or the constructor raised.",
        note="Trusted: z3, symx, the expected-field table of checks/c03.py. Float arguments are exact reals on the wire grid (binary rounding of the hex_from_* helpers is C04's). 42 argument regions in which the constructors accept what the decoder rejects / changes are recorded known findings (each with its region predicate, so anything outside the regions is still reported); two defects were repaired (get_zone_setpoint verb, _check_idx range test).",
        design="4/C03"),
})
CLAIMED.update({
    "C14": dict(
        text="(a) pkt_lifespan + Message._expired run on one logged frame per I/RP verb/code (and on sync-cycle frames with all 65536 count-downs symbolic) with the gateway clock two solver reals e1 <= e2 on the same object: never raises, not expired before the lifetime, expired from 2x lifetime + 3 s, expiry never un-happens. (b) the real _MessageDB store/read functions on a minimal entity: two messages for the same attribute and context with symbolic values and unrelated traffic in between - the read equals the later message's value (dict and array forms), and past twice the lifetime reads unknown. (c) entity level: a real Gateway with a controller and zones 00-02 receives K = 2..3 state messages through the real dispatcher and MultiZone/Zone handlers; per message the form (30C9/2309 array, per-zone RP/I, 2349), the zone, the 16-bit value and the time of receipt are solver variables, as is the read time; every zone's temperature and setpoint then equal the value of the newest live message covering that zone, and a value is reported only while a message carrying it is younger than 2x lifetime + 3 s.",
        note="Trusted: z3 (linear real arithmetic over the clock), symx, the SymInstant/SymTimeDelta stand-ins for datetime arithmetic. The lifetime table itself is taken from the code (the property fixes only the 1x/2x+3 s thresholds). Entity-level routing is covered for zones (30C9/2309/2349); DHW/UFH and the other stateful codes are covered at the state-DB level only. The stale first read after expiry is a recorded known finding; the zero-countdown division and the -1.0 sentinel collision were repaired.",
        design="4/C14"),
})
CLAIMED.update({
    "C17": dict(
        text="The real full_sched_to_fragz -> fragz_to_full_sched pipeline (record packing through the struct byte-layout model, hex rendering, 82-character slicing, re-grouping by day, time/setpoint formatting) runs on a weekly schedule whose zone index and switch points (hour, 5-minute slot, setpoint k/100 or on/off; two days at a time) are solver variables, with zlib replaced by the identity; per path the solver shows read-back == written field by field and every fragment <= 41 bytes. Schedule._update_payload_set/_proc_payload_set are fed the fragments in every order with repeats: whatever they assemble is the schedule written. The fragmentation itself is also run on a compressor output of L arbitrary bytes (L enumerated, contents symbolic): ceil(L/41) non-empty fragments of at most 41 bytes that concatenate to the blob, and the write command of the first and last fragment (and of a fragment of every length 1..41) is accepted and read back by the decoder; a schedule that fits one fragment is received by a real Schedule object, and a zone without schedule asked afterwards is unaffected.",
        note="Trusted: z3, symx, the struct stub. zlib is outside the encodable subset: only decompress(compress(x)) == x is assumed (counterexamples are replayed with the real zlib). The voluptuous validators are not modelled (schedules are well-formed by construction). Float setpoints are exact reals here; the int(round(x*100)) kernel was decided under C04. The shared mutable EMPTY_PAYLOAD_SET (one-fragment schedule read back as 'no schedule') was found by this check and repaired.",
        design="4/C17"),
})
CLAIMED.update({
    "C11": dict(
        text="The real limit_duty_cycle closure (fresh instance and the one decorating PortTransport.write_frame), the 50 ms write-token task and MqttTransport.write_frame run on the virtual-time loop with perf_counter = the virtual clock; request times are solver reals, frame sizes selectors, callers sequential or overlapping, and the bucket / token level at the start of the episode an arbitrary solver real within the invariant (so each episode is an inductive step). Per path, for every pair of writes: bits <= rate x window + one bucket (+ one frame per pending caller), bits <= level + refill, writes j-i <= window/0.05 + 1, MQTT publishes <= level + refill + one refill second, an accepted MQTT write sleeps <= 1 s and an over-budget one returns at once; every accepted frame is written once, unaltered, sequential ones in order. The inductive duty-cycle clause uses the exact over-commit allowance (what other callers wrote while the writer slept), so a debt of concurrent callers that is not carried forward is a counterexample.",
        note="Trusted: z3 (linear real arithmetic), symx, the bare transport objects. The library computes in binary floating point, the solver in exact rationals: inequalities carry a 1e-6 tolerance. Bounds: k <= 3 requests per episode (4 thorough); port queries within 0.2 s because the 50 ms task is stepped. avoid_system_syncs with pending sync cycles is outside.",
        design="4/C11"),
})
CLAIMED.update({
    "C13": dict(
        text="(a) snapshot/restore clause: the real Gateway.get_state and _restore_cached_packets with the real Gateway/Engine _pause/_resume run on a bare Gateway object; which messages are stored, their ages (solver reals), include_expired, the sending/discovery flags and a fault point (any stored message's expiry test raising, the temporary protocol/transport factory or the replay task failing) are solver variables; per path, returned or raised, the engine is not left paused, handler and flags are as before, every pause is matched by a resume and the operation can be repeated. (b) views clause: a real Gateway is fed a prefix of one of the repository's system logs through the real message handler, dispatcher and entity handlers, then one more packet of that history whose payload carries a solver-chosen 2-byte window (appended, or replacing the original line); per path every public view (gateway schema/params/status/known_list/get_state, and schema/params/status/traits of every device, system, zone, DHW) answers without raising, the engine is not paused and a later good packet still reaches its device.",
        note="Not claimed: views after arbitrary many-packet histories (deletion/reordering/splicing are not a solver domain) - the claim is for the stated log prefixes (4 logs quick / 7 thorough) plus one symbolic packet; windows over embedded device ids, names and zone masks are thorough-tier only. Trusted: z3, symx, the bare-object stubs, the clock-only stub transport. Found by this check and repaired: the missing try/finally (engine left paused) and BdrSwitch.role raising NameError for a relay listed as a zone actuator.",
        design="4/C13, 7.5"),
    "C16": dict(
        text="Claimed at the storage-format and filter level: (a) for an arbitrary accepted packet (all frame fields symbolic) the stored text repr(pkt)[:26] -> repr(pkt)[27:] is read back by the real Packet.from_dict as a packet whose stored text is identical (snapshot -> restore -> snapshot is a fixpoint of the packet set, headers and contexts included); (c) gateway level: the snapshot of a real Gateway (a log prefix + one packet with a solver-chosen payload window) is restored into a fresh real Gateway through Gateway.start(cached_packets=...) (real temporary protocol + FileTransport + Packet.from_dict + dispatcher): the second snapshot equals the first cell for cell, restoring once more changes nothing, the snapshot holds no request and no write but schedule fragments. (b) the real get_state over stored messages of any of 12 verb/code kinds with symbolic ages and include_expired: whatever is in the snapshot is allowed by the statement (no request, no write but schedule fragments, nothing expired unless asked), live I/RP state is saved, and every stored line decodes again.",
        note="Not claimed: equality of the schemas of source and restored gateway (evaluated on the concrete histories only, as a plain execution); histories beyond the stated log prefixes + one symbolic packet. The always-kept expired 313F is a recorded known finding. Time stamps are concrete (dt.fromisoformat is C code).",
        design="4/C16"),
})
CLAIMED.update({
    "C18": dict(
        text="The real Schedule.get_schedule/_get_schedule/_is_dated/set_schedule/_handle_msg/_update_payload_set and ScheduleSync._obtain_lock/_release_lock/_schedule_version run on the virtual-time loop (heat.dt = virtual clock) against a scripted controller holding two concrete schedule versions (real zlib); per exchange answer/failure and duration, the position of a version bump, an overheard fragment and the caller's timeout (a solver real) are solver variables. Per path: the transfer ends within the timeout, a returned schedule is version A's or B's (never a mixture) and consistent with the recorded change counter, else it raised; afterwards the transfer lock is free, a follow-up transfer for another zone completes and a new transfer for the same zone does its own I/O and returns the controller's current schedule.",
        note="Most decisions are free Booleans/selectors (the solver's part: timeout-versus-progress zones, bookkeeping, replay). Bounds: <= 8 (10) exchanges, <= 2 (3) failures, one bump, one overheard fragment, one follow-up zone; three concurrent transfers are outside. The lock kept after a failed/abandoned get_schedule was found by this check and repaired.",
        design="4/C18"),
})
NOT_APPLICABLE = {
    "C12": "whole-gateway discovery against a scripted controller over simulated hours: the quantified space is a discrete configuration/loss pattern and the entity layer (voluptuous schemas, pollers, entity graph) is outside the symbolically executable subset; decode kernels it rests on are covered under C05",
    "C15": "schema validity/consistency over packet histories: validators are voluptuous (third-party, callable/regex based, not instrumented) and the rules live in the entity graph; no symbolic dimension is encodable within reach",
}
PENDING = "check not built yet in this session (see DESIGN.md section 4 for the plan); not claimed until its harness lands"


def main():
    props = [json.loads(l)["id"] for l in open(os.path.join(HERE, "properties.jsonl"))]
    checks = []
    for pid in props:
        if pid not in CLAIMED or not os.path.exists(os.path.join(HERE, "checks", pid.lower() + ".py")):
            continue
        c = CLAIMED[pid]
        checks.append({
            "property_id": pid,
            "quick_cmd": f"./vcheck {pid} --tier quick",
            "thorough_cmd": f"./vcheck {pid} --tier thorough",
            "evidence_file": f"/verif/evidence/{pid}.json",
            "replay_cmd_template": "./vcheck replay {path}",
            "engine": "symx",
            "level_claimed": {"category": c.get("category", "other"), "text": c["text"], "design_ref": f"DESIGN.md {c['design']}"},
            "level_note": c["note"],
            "technique": TECH,
        })
    claimed = {c["property_id"] for c in checks}
    na = [{"property_id": p, "reason": NOT_APPLICABLE.get(p, PENDING)} for p in props if p not in claimed]
    m = {
        "version": 1,
        "setup_cmd": "./setup.sh",
        "hooks": {
            "guard": "ZXDAVB_RAMSES_RF_VERIF",
            "enable": "none needed: every substitution (symbolic values, virtual clock, stub transports) is made from outside /repo at import time by symx.instrument",
            "baseline_off_cmd": "cd /repo && /venv/bin/python -m pytest -ra -q -p no:cacheprovider --timeout=900 --continue-on-collection-errors",
            "source_commits": [],
            "add_only": True,
        },
        "engines": [{"name": "symx", "path": "/verif/symx", "serves_properties": sorted(claimed),
                     "kind_free_text": "z3-backed concolic (re-execution DFS) symbolic executor for Python; AST import hook recompiles ramses_tx/ramses_rf from /repo/src on every run; virtual-time asyncio loop with symbolic clock"}],
        "checks": checks,
        "not_applicable": na,
        "notes": "Exit codes: 0 held on everything explored, 1 reproduced violation (VIOLATION line), 2 harness error. Known findings: /verif/known_findings.json.",
    }
    json.dump(m, open(os.path.join(HERE, "MANIFEST.json"), "w"), indent=1)
    print("claimed", sorted(claimed), "n/a", len(na))


if __name__ == "__main__":
    main()
