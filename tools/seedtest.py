#!/usr/bin/env python3
"""Confirm a seeded change and run checks against it.

usage: tools/seedtest.py <dir with patch.diff demo.py meta.json> <seed-id> [--checks C07,C08] [--tier quick] [--no-verify]

1. fresh scratch worktree of /repo HEAD (under /tmp/wtv), demo passes; apply patch; demo fails; test suite
   still passes (failures must be within the baseline's flaky/always-fail sets);
2. copy patch/demo/meta to /verif/seeded/<seed-id>/;
3. run the named checks against the patched worktree (SYMX_SRC_ROOT) with evidence/replays redirected,
   record which checks raise VIOLATION in seeded/<seed-id>/result.json;
4. remove the worktree.
"""
import json, os, re, shutil, subprocess, sys, time

VERIF = os.path.dirname(os.path.dirname(os.path.abspath(__file__)))
BASE = json.load(open("/root/.vp/BASELINE.json"))
TOLERATED = set(BASE.get("flaky", [])) | set(BASE.get("always_fail", [])) | set(BASE.get("dropped_after_offline", []))


def sh(cmd, **kw):
    return subprocess.run(cmd, shell=True, capture_output=True, text=True, **kw)


def main():
    a = sys.argv[1:]
    src, sid = os.path.abspath(a[0]), a[1]
    checks = []
    tier = "quick"
    verify = "--no-verify" not in a
    if "--checks" in a:
        checks = a[a.index("--checks") + 1].split(",")
    if "--tier" in a:
        tier = a[a.index("--tier") + 1]
    meta = json.load(open(os.path.join(src, "meta.json")))
    if not checks:
        checks = [meta["property"]]
    wt = f"/tmp/wtv/{sid}"
    sh(f"git -C /repo worktree remove --force {wt}")
    shutil.rmtree(wt, ignore_errors=True)
    os.makedirs("/tmp/wtv", exist_ok=True)
    r = sh(f"git -C /repo worktree add -q --detach {wt} {meta.get('base_commit', 'HEAD')}")  # base_commit: the tree the change was written against
    assert r.returncode == 0, r.stderr
    out = {"seed": sid, "property": meta["property"], "at": time.strftime("%Y-%m-%dT%H:%M:%S"), "repo_head": sh("git -C /repo rev-parse --short HEAD").stdout.strip()}
    try:
        env = dict(os.environ, PYTHONPATH=f"{wt}/src", PYTHONDONTWRITEBYTECODE="1")
        demo = os.path.join(src, "demo.py")
        if verify:
            d0 = subprocess.run(["/venv/bin/python", demo], env=env, capture_output=True, text=True, timeout=600, cwd=wt)
            out["demo_unpatched_rc"] = d0.returncode
        ap = sh(f"git -C {wt} apply {os.path.join(src, 'patch.diff')}")
        assert ap.returncode == 0, "patch does not apply: " + ap.stderr
        if verify:
            d1 = subprocess.run(["/venv/bin/python", demo], env=env, capture_output=True, text=True, timeout=600, cwd=wt)
            out["demo_patched_rc"] = d1.returncode
            out["demo_patched_tail"] = (d1.stdout + d1.stderr)[-400:]
            jx = f"/tmp/wtv/{sid}.junit.xml"
            t = subprocess.run(f"cd {wt} && /venv/bin/python -m pytest -q -p no:cacheprovider --timeout=900 --continue-on-collection-errors --junitxml={jx} tests", shell=True, env=env, capture_output=True, text=True, timeout=1800)
            import xml.etree.ElementTree as ET
            fails = []
            for tc in ET.parse(jx).getroot().iter("testcase"):
                if tc.find("failure") is not None or tc.find("error") is not None:
                    fails.append(f"{tc.get('classname')}::{tc.get('name')}")
            os.unlink(jx)
            # timing-sensitive tests fail under CPU load: re-run unexpected failures on their own
            retry = [f for f in fails if f not in TOLERATED]
            for f in list(retry):
                mod, name = f.split("::", 1)
                path = mod.replace(".", "/") + ".py"
                for _ in range(2):
                    r2 = subprocess.run(f"cd {wt} && /venv/bin/python -m pytest -q -p no:cacheprovider --timeout=900 '{path}::{name}'", shell=True, env=env, capture_output=True, text=True, timeout=900)
                    if r2.returncode == 0:
                        fails.remove(f)
                        break
            out["suite_failures_with_patch"] = fails
            out["suite_ok"] = all(f in TOLERATED for f in fails)
            out["confirmed"] = bool(out["demo_unpatched_rc"] == 0 and out["demo_patched_rc"] != 0 and out["suite_ok"])
            print(f"[{sid}] demo unpatched rc={out['demo_unpatched_rc']} patched rc={out['demo_patched_rc']} suite failures={fails} confirmed={out['confirmed']}", flush=True)
            if not out["confirmed"]:
                print(json.dumps(out, indent=1))
                return 1
        dst = os.path.join(VERIF, "seeded", sid)
        os.makedirs(dst, exist_ok=True)
        for f in ("patch.diff", "demo.py"):
            if os.path.abspath(os.path.join(src, f)) != os.path.abspath(os.path.join(dst, f)):
                shutil.copy(os.path.join(src, f), os.path.join(dst, f))
        prev = {}
        if os.path.exists(os.path.join(dst, "meta.json")):
            try:
                prev = json.load(open(os.path.join(dst, "meta.json")))
            except Exception:
                prev = {}
        meta2 = dict(prev, **meta)
        if verify:
            meta2["confirmation"] = {k: out[k] for k in ("repo_head", "demo_unpatched_rc", "demo_patched_rc", "suite_failures_with_patch", "suite_ok", "confirmed")}
            meta2["ran"] = ["fresh worktree of /repo HEAD: demo.py -> rc 0", "git apply patch.diff: demo.py -> rc != 0", "pytest tests (full suite) with the patch: only baseline-flaky/always-failing tests fail"]
        detected = prev.get("checks_run", {})
        evd = f"/tmp/wtv/{sid}.ev"
        for c in checks:
            os.makedirs(evd, exist_ok=True)
            env2 = dict(os.environ, SYMX_SRC_ROOT=f"{wt}/src", SYMX_EVIDENCE_DIR=evd, SYMX_REPLAY_DIR=evd + "/replays")
            t0 = time.time()
            p = subprocess.run([os.path.join(VERIF, "vcheck"), c, "--tier", tier], env=env2, capture_output=True, text=True, timeout=7200, cwd=VERIF)
            vio = [ln for ln in p.stdout.splitlines() if ln.startswith("VIOLATION")]
            sigs = [ln.strip() for ln in p.stderr.splitlines() if "signature=" in ln][:5]
            detected[f"{c}:{tier}"] = {"rc": p.returncode, "violations": len(vio), "signatures": sigs, "wall_s": round(time.time() - t0, 1)}
            print(f"[{sid}] check {c} {tier}: rc={p.returncode} violations={len(vio)} {sigs[:2]} ({time.time()-t0:.0f}s)", flush=True)
            if p.returncode == 2:
                print(p.stderr[-1500:])
            shutil.rmtree(evd, ignore_errors=True)
        meta2["checks_run"] = detected
        meta2["detected_by"] = sorted(k for k, v in detected.items() if v["rc"] == 1 and v.get("violations", 0) > 0)
        json.dump(meta2, open(os.path.join(dst, "meta.json"), "w"), indent=1)
        return 0
    finally:
        sh(f"git -C /repo worktree remove --force {wt}")
        shutil.rmtree(wt, ignore_errors=True)


if __name__ == "__main__":
    sys.exit(main())
